#![no_main]
// coverage-guided bytes -> the same tape decoder and oracle as `./check C03` (stratum random_families)
libfuzzer_sys::fuzz_target!(|data: &[u8]| {
    vlib::fuzz::one_input("C03", "random_families", data);
});
