#![no_main]
// coverage-guided bytes -> the same tape decoder and oracle as `./check C17` (stratum group_versions)
libfuzzer_sys::fuzz_target!(|data: &[u8]| {
    vlib::fuzz::one_input("C17", "group_versions", data);
});
