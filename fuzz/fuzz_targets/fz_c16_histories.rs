#![no_main]
// coverage-guided bytes -> the same tape decoder and oracle as `./check C16` (stratum histories)
libfuzzer_sys::fuzz_target!(|data: &[u8]| {
    vlib::fuzz::one_input("C16", "histories", data);
});
