#![no_main]
// coverage-guided bytes -> the same tape decoder and oracle as `./check C08` (stratum programs)
libfuzzer_sys::fuzz_target!(|data: &[u8]| {
    vlib::fuzz::one_input("C08", "programs", data);
});
