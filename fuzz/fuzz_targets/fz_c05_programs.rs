#![no_main]
// coverage-guided bytes -> the same tape decoder and oracle as `./check C05` (stratum programs)
libfuzzer_sys::fuzz_target!(|data: &[u8]| {
    vlib::fuzz::one_input("C05", "programs", data);
});
