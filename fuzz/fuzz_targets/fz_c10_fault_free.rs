#![no_main]
// coverage-guided bytes -> the same tape decoder and oracle as `./check C10` (stratum fault_free)
libfuzzer_sys::fuzz_target!(|data: &[u8]| {
    vlib::fuzz::one_input("C10", "fault_free", data);
});
