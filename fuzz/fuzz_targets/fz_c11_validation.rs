#![no_main]
// coverage-guided bytes -> the same tape decoder and oracle as `./check C11` (stratum validation)
libfuzzer_sys::fuzz_target!(|data: &[u8]| {
    vlib::fuzz::one_input("C11", "validation", data);
});
