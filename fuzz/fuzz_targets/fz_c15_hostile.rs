#![no_main]
// coverage-guided bytes -> the same tape decoder and oracle as `./check C15` (stratum random_hostile)
libfuzzer_sys::fuzz_target!(|data: &[u8]| {
    vlib::fuzz::one_input("C15", "random_hostile", data);
});
