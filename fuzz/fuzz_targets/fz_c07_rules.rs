#![no_main]
// coverage-guided bytes -> the same tape decoder and oracle as `./check C07` (stratum programs_and_rules)
libfuzzer_sys::fuzz_target!(|data: &[u8]| {
    vlib::fuzz::one_input("C07", "programs_and_rules", data);
});
