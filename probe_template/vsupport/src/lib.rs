//! Support types for compiling generated modules in the rustc tier: the paths the harness'
//! settings point at (`::vsupport::codec::Compact`, `::vsupport::bits::DecodedBits`, ...).

pub mod codec {
    pub use parity_scale_codec::*;
}

/// stands in for BTreeMap/BTreeSet/BinaryHeap when keys are not `Ord` (as subxt does)
#[derive(Debug, Clone, PartialEq, codec::Encode, codec::Decode)]
pub struct KeyedVec<K, V>(pub Vec<(K, V)>);

#[derive(Debug, Clone, PartialEq, codec::Encode, codec::Decode)]
pub struct PlainVec<T>(pub Vec<T>);

pub mod bits {
    use core::marker::PhantomData;
    use parity_scale_codec::{Compact, Decode, Encode, Error, Input, Output};
    use scale_bits::scale::format::{Format, OrderFormat, StoreFormat};

    #[derive(Debug, Clone, PartialEq, Eq, Default, Encode, Decode)]
    pub struct Lsb0;
    #[derive(Debug, Clone, PartialEq, Eq, Default, Encode, Decode)]
    pub struct Msb0;

    pub trait BitOrder {
        const FORMAT: OrderFormat;
    }
    impl BitOrder for Lsb0 {
        const FORMAT: OrderFormat = OrderFormat::Lsb0;
    }
    impl BitOrder for Msb0 {
        const FORMAT: OrderFormat = OrderFormat::Msb0;
    }
    pub trait BitStore {
        const FORMAT: StoreFormat;
        const BYTES: usize;
    }
    impl BitStore for u8 {
        const FORMAT: StoreFormat = StoreFormat::U8;
        const BYTES: usize = 1;
    }
    impl BitStore for u16 {
        const FORMAT: StoreFormat = StoreFormat::U16;
        const BYTES: usize = 2;
    }
    impl BitStore for u32 {
        const FORMAT: StoreFormat = StoreFormat::U32;
        const BYTES: usize = 4;
    }
    impl BitStore for u64 {
        const FORMAT: StoreFormat = StoreFormat::U64;
        const BYTES: usize = 8;
    }

    /// bit sequence with the wire format of `bitvec::BitVec<Store, Order>`
    pub struct DecodedBits<Store, Order> {
        pub bits: scale_bits::Bits,
        _m: PhantomData<(Store, Order)>,
    }
    impl<S, O> core::fmt::Debug for DecodedBits<S, O> {
        fn fmt(&self, f: &mut core::fmt::Formatter<'_>) -> core::fmt::Result {
            write!(f, "DecodedBits({:?})", self.bits)
        }
    }
    impl<S, O> Clone for DecodedBits<S, O> {
        fn clone(&self) -> Self {
            DecodedBits {
                bits: self.bits.clone(),
                _m: PhantomData,
            }
        }
    }
    impl<S: BitStore, O: BitOrder> Decode for DecodedBits<S, O> {
        fn decode<I: Input>(input: &mut I) -> Result<Self, Error> {
            let len = Compact::<u32>::decode(input)?;
            let store_bits = S::BYTES * 8;
            let words = (len.0 as usize + store_bits - 1) / store_bits;
            let mut data = vec![0u8; words * S::BYTES];
            input.read(&mut data)?;
            let mut buf = len.encode();
            buf.extend_from_slice(&data);
            let format = Format::new(S::FORMAT, O::FORMAT);
            let dec = scale_bits::decode_using_format_from(&buf, format).map_err(|_| Error::from("bad bit sequence"))?;
            let mut bits = scale_bits::Bits::new();
            for b in dec {
                bits.push(b.map_err(|_| Error::from("bad bit"))?);
            }
            Ok(DecodedBits {
                bits,
                _m: PhantomData,
            })
        }
    }
    impl<S: BitStore, O: BitOrder> Encode for DecodedBits<S, O> {
        fn encode_to<T: Output + ?Sized>(&self, dest: &mut T) {
            let format = Format::new(S::FORMAT, O::FORMAT);
            let bytes = scale_bits::encode_using_format(self.bits.iter(), format);
            dest.write(&bytes);
        }
    }
}
