//! Assembling cases: tape -> program -> registry (+ CF report), running the generator under
//! catch_unwind and parsing its output.

use crate::cf::{analyse, CfReport};
use crate::engine::guard;
use crate::gen::{gen_program, GenOpts, Generated};
use crate::genmod::{self, GMod};
use crate::lower::{lower, registry_json, Lowered};
use crate::settings::SettingsSpec;
use crate::tape::Tape;
use scale_info::PortableRegistry;
use scale_typegen::typegen::ir::ToTokensWithSettings;
use scale_typegen::{TypeGenerator, TypegenError};
use serde_json::{json, Value};
use std::collections::BTreeMap;

pub struct Case {
    pub gen: Generated,
    pub low: Lowered,
    pub cf: CfReport,
}

pub const MAX_REGISTRY: usize = 400;

/// None if the lowered registry is too large (counted as a discard by callers)
pub fn make_case(t: &mut Tape, o: &GenOpts) -> Option<Case> {
    let gen = gen_program(t, o);
    let low = lower(&gen.prog);
    if low.registry.types.len() > MAX_REGISTRY {
        return None;
    }
    let cf = analyse(&gen.prog, &low);
    Some(Case { gen, low, cf })
}

impl Case {
    pub fn to_json(&self) -> Value {
        json!({
            "program": self.gen.prog.to_text(),
            "registry": registry_json(&self.low.registry),
        })
    }
}

#[derive(Debug, Clone, PartialEq, Eq)]
pub enum ErrKind {
    DuplicateTypePath(String),
    RegistryTypeIdsInvalid { given: u32, expected: u32 },
    InvalidFields,
    InvalidType(String),
    CompactPathNone,
    DecodedBitsPathNone,
    TypeNotFound(u32),
    SynParse(String),
    Other(String),
}

pub fn err_kind(e: &TypegenError) -> ErrKind {
    match e {
        TypegenError::DuplicateTypePath(p) => ErrKind::DuplicateTypePath(p.clone()),
        TypegenError::RegistryTypeIdsInvalid {
            given_ty_id,
            expected_ty_id,
            ..
        } => ErrKind::RegistryTypeIdsInvalid {
            given: *given_ty_id,
            expected: *expected_ty_id,
        },
        TypegenError::InvalidFields(_) => ErrKind::InvalidFields,
        TypegenError::InvalidType(s) => ErrKind::InvalidType(s.clone()),
        TypegenError::CompactPathNone => ErrKind::CompactPathNone,
        TypegenError::DecodedBitsPathNone => ErrKind::DecodedBitsPathNone,
        TypegenError::TypeNotFound(i) => ErrKind::TypeNotFound(*i),
        TypegenError::SynParseError(e) => ErrKind::SynParse(e.to_string()),
        other => ErrKind::Other(other.to_string()),
    }
}

pub struct GenOut {
    pub tokens: String,
    pub gm: GMod,
    /// path (without root) -> id of the registry entry the kept item was built from
    pub kept: BTreeMap<Vec<String>, u32>,
}

pub enum GenResult {
    Ok(Box<GenOut>),
    Err(ErrKind),
    Panic(String),
    /// output does not parse
    Unparsable(String, String),
}

fn collect_kept(m: &scale_typegen::typegen::ir::module_ir::ModuleIR, out: &mut BTreeMap<Vec<String>, u32>) {
    for (p, (id, _)) in m.types.iter() {
        out.insert(p.segments.clone(), *id);
    }
    for (_, c) in m.children() {
        collect_kept(c, out);
    }
}

pub fn run_typegen(reg: &PortableRegistry, spec: &SettingsSpec) -> GenResult {
    let settings = spec.build();
    let r = guard(|| {
        let g = TypeGenerator::new(reg, &settings);
        g.generate_types_mod().map(|m| {
            let mut kept = BTreeMap::new();
            collect_kept(&m, &mut kept);
            (m.to_token_stream(&settings).to_string(), kept)
        })
    });
    match r {
        Err(p) => GenResult::Panic(p),
        Ok(Err(e)) => GenResult::Err(err_kind(&e)),
        Ok(Ok((tokens, kept))) => match genmod::parse(&tokens) {
            Ok(gm) => GenResult::Ok(Box::new(GenOut { tokens, gm, kept })),
            Err(e) => GenResult::Unparsable(e, tokens),
        },
    }
}

/// tokens of `resolve_type_path(id)`; Err(kind) / panic message
pub fn resolve_tokens(
    reg: &PortableRegistry,
    settings: &scale_typegen::TypeGeneratorSettings,
    id: u32,
) -> Result<Result<String, ErrKind>, String> {
    guard(|| {
        let g = TypeGenerator::new(reg, settings);
        g.resolve_type_path(id)
            .map(|p| p.to_token_stream(settings).to_string())
            .map_err(|e| err_kind(&e))
    })
}
