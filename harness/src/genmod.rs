//! Parsed model of the generated module (DESIGN.md 4.1).

use std::collections::{BTreeMap, BTreeSet};
use syn::{Attribute, Fields as SFields, Item, Meta};

#[derive(Clone, Debug)]
pub struct GField {
    pub name: Option<String>,
    pub ty: syn::Type,
    pub compact: bool,
    pub skip: bool,
    pub is_pub: bool,
    pub docs: Vec<String>,
    pub other_attrs: Vec<String>,
}

#[derive(Clone, Debug)]
pub enum GFields {
    Unit,
    Named(Vec<GField>),
    Unnamed(Vec<GField>),
}

impl GFields {
    pub fn list(&self) -> &[GField] {
        match self {
            GFields::Unit => &[],
            GFields::Named(f) | GFields::Unnamed(f) => f,
        }
    }
}

#[derive(Clone, Debug)]
pub struct GVariant {
    pub name: String,
    pub index: Option<u64>,
    pub fields: GFields,
    pub docs: Vec<String>,
    pub other_attrs: Vec<String>,
}

#[derive(Clone, Debug)]
pub enum GKind {
    Struct(GFields),
    Enum(Vec<GVariant>),
}

#[derive(Clone, Debug)]
pub struct GItem {
    /// full path including the root module and the item name
    pub path: Vec<String>,
    pub generics: Vec<String>,
    pub kind: GKind,
    /// derive paths in emission order (token strings without spaces)
    pub derives: Vec<String>,
    /// derive paths as token strings exactly as `quote!(#path).to_string()` prints them
    pub derives_tok: Vec<String>,
    /// other attributes as token strings (same order as `attrs`)
    pub attrs_tok: Vec<String>,
    /// number of #[derive] attributes on the item
    pub derive_attrs: usize,
    /// other attributes (not derive, not doc) in emission order
    pub attrs: Vec<String>,
    pub docs: Vec<String>,
    /// struct declared with trailing semicolon
    pub semi: bool,
}

#[derive(Clone, Debug, Default)]
pub struct GMod {
    pub root: String,
    pub items: BTreeMap<Vec<String>, GItem>,
    /// module paths (including root)
    pub modules: BTreeSet<Vec<String>>,
    /// module path -> names imported by `use super::X;`
    pub uses: BTreeMap<Vec<String>, Vec<String>>,
    /// structural problems found while parsing (duplicate names ...)
    pub problems: Vec<String>,
    /// order of items as emitted, per module
    pub order: BTreeMap<Vec<String>, Vec<String>>,
}

pub fn nospace(s: &str) -> String {
    s.chars().filter(|c| !c.is_whitespace()).collect()
}

pub fn tokens_nospace<T: quote::ToTokens>(t: &T) -> String {
    nospace(&t.to_token_stream().to_string())
}

struct AttrInfo {
    docs: Vec<String>,
    derives: Vec<String>,
    derives_tok: Vec<String>,
    other_tok: Vec<String>,
    derive_attrs: usize,
    compact: bool,
    skip: bool,
    index: Option<u64>,
    other: Vec<String>,
}

fn attrs(a: &[Attribute]) -> AttrInfo {
    let mut info = AttrInfo {
        docs: vec![],
        derives: vec![],
        derives_tok: vec![],
        other_tok: vec![],
        derive_attrs: 0,
        compact: false,
        skip: false,
        index: None,
        other: vec![],
    };
    for at in a {
        if at.path().is_ident("doc") {
            if let Meta::NameValue(nv) = &at.meta {
                if let syn::Expr::Lit(syn::ExprLit {
                    lit: syn::Lit::Str(s),
                    ..
                }) = &nv.value
                {
                    info.docs.push(s.value());
                    continue;
                }
            }
            info.docs.push(tokens_nospace(at));
        } else if at.path().is_ident("derive") {
            info.derive_attrs += 1;
            let _ = at.parse_nested_meta(|m| {
                info.derives.push(tokens_nospace(&m.path));
                info.derives_tok.push(quote::ToTokens::to_token_stream(&m.path).to_string());
                Ok(())
            });
        } else if at.path().is_ident("codec") {
            let s = tokens_nospace(at);
            let mut recognised = false;
            let _ = at.parse_nested_meta(|m| {
                if m.path.is_ident("compact") {
                    info.compact = true;
                    recognised = true;
                } else if m.path.is_ident("skip") {
                    info.skip = true;
                    recognised = true;
                } else if m.path.is_ident("index") {
                    let v = m.value()?;
                    let lit: syn::LitInt = v.parse()?;
                    info.index = lit.base10_parse::<u64>().ok();
                    recognised = true;
                }
                Ok(())
            });
            if !recognised {
                info.other.push(s);
                info.other_tok.push(quote::ToTokens::to_token_stream(at).to_string());
            }
        } else {
            info.other.push(tokens_nospace(at));
            info.other_tok.push(quote::ToTokens::to_token_stream(at).to_string());
        }
    }
    info
}

fn fields(f: &SFields) -> GFields {
    let one = |f: &syn::Field| {
        let a = attrs(&f.attrs);
        GField {
            name: f.ident.as_ref().map(|i| i.to_string()),
            ty: f.ty.clone(),
            compact: a.compact,
            skip: a.skip,
            is_pub: matches!(f.vis, syn::Visibility::Public(_)),
            docs: a.docs,
            other_attrs: a.other,
        }
    };
    match f {
        SFields::Unit => GFields::Unit,
        SFields::Named(n) => GFields::Named(n.named.iter().map(one).collect()),
        SFields::Unnamed(u) => GFields::Unnamed(u.unnamed.iter().map(one).collect()),
    }
}

fn generics(g: &syn::Generics, problems: &mut Vec<String>, at: &str) -> Vec<String> {
    let mut out = vec![];
    for p in &g.params {
        match p {
            syn::GenericParam::Type(t) => out.push(t.ident.to_string()),
            _ => problems.push(format!("{at}: non-type generic parameter")),
        }
    }
    out
}

fn walk(m: &mut GMod, path: &[String], items: &[Item]) {
    let mut names = BTreeSet::new();
    for it in items {
        match it {
            Item::Mod(md) => {
                let name = md.ident.to_string();
                if !names.insert(name.clone()) {
                    m.problems.push(format!("duplicate name {name} in {}", path.join("::")));
                }
                let mut p = path.to_vec();
                p.push(name);
                m.modules.insert(p.clone());
                match &md.content {
                    Some((_, inner)) => walk(m, &p, inner),
                    None => m.problems.push(format!("module {} without body", p.join("::"))),
                }
            }
            Item::Use(u) => {
                // expect `use super::X;`
                let s = tokens_nospace(&u.tree);
                if let Some(rest) = s.strip_prefix("super::") {
                    m.uses.entry(path.to_vec()).or_default().push(rest.to_string());
                } else {
                    m.uses.entry(path.to_vec()).or_default().push(format!("?{s}"));
                }
            }
            Item::Struct(s) => {
                let name = s.ident.to_string();
                if !names.insert(name.clone()) {
                    m.problems.push(format!("duplicate name {name} in {}", path.join("::")));
                }
                let mut p = path.to_vec();
                p.push(name.clone());
                let a = attrs(&s.attrs);
                let g = generics(&s.generics, &mut m.problems, &p.join("::"));
                if !matches!(s.vis, syn::Visibility::Public(_)) {
                    m.problems.push(format!("{} is not pub", p.join("::")));
                }
                m.order.entry(path.to_vec()).or_default().push(name);
                m.items.insert(
                    p.clone(),
                    GItem {
                        path: p,
                        generics: g,
                        kind: GKind::Struct(fields(&s.fields)),
                        derives: a.derives,
                        derives_tok: a.derives_tok,
                        attrs_tok: a.other_tok,
                        derive_attrs: a.derive_attrs,
                        attrs: a.other,
                        docs: a.docs,
                        semi: s.semi_token.is_some(),
                    },
                );
            }
            Item::Enum(e) => {
                let name = e.ident.to_string();
                if !names.insert(name.clone()) {
                    m.problems.push(format!("duplicate name {name} in {}", path.join("::")));
                }
                let mut p = path.to_vec();
                p.push(name.clone());
                let a = attrs(&e.attrs);
                let g = generics(&e.generics, &mut m.problems, &p.join("::"));
                if !matches!(e.vis, syn::Visibility::Public(_)) {
                    m.problems.push(format!("{} is not pub", p.join("::")));
                }
                let mut vnames = BTreeSet::new();
                let vs = e
                    .variants
                    .iter()
                    .map(|v| {
                        let va = attrs(&v.attrs);
                        if !vnames.insert(v.ident.to_string()) {
                            m.problems
                                .push(format!("duplicate variant {} in {}", v.ident, p.join("::")));
                        }
                        if v.discriminant.is_some() {
                            m.problems.push(format!("explicit discriminant in {}", p.join("::")));
                        }
                        GVariant {
                            name: v.ident.to_string(),
                            index: va.index,
                            fields: fields(&v.fields),
                            docs: va.docs,
                            other_attrs: va.other,
                        }
                    })
                    .collect();
                m.order.entry(path.to_vec()).or_default().push(name);
                m.items.insert(
                    p.clone(),
                    GItem {
                        path: p,
                        generics: g,
                        kind: GKind::Enum(vs),
                        derives: a.derives,
                        derives_tok: a.derives_tok,
                        attrs_tok: a.other_tok,
                        derive_attrs: a.derive_attrs,
                        attrs: a.other,
                        docs: a.docs,
                        semi: false,
                    },
                );
            }
            other => m
                .problems
                .push(format!("unexpected item kind in {}: {}", path.join("::"), tokens_nospace(other))),
        }
    }
}

/// Parse the token string of a generated module. `Err` = does not parse as a Rust file.
pub fn parse(tokens: &str) -> Result<GMod, String> {
    let file = syn::parse_file(tokens).map_err(|e| format!("output does not parse as Rust: {e}"))?;
    let mut m = GMod::default();
    if file.items.len() != 1 {
        return Err(format!("expected exactly one root module, found {} items", file.items.len()));
    }
    let Item::Mod(root) = &file.items[0] else {
        return Err("root item is not a module".into());
    };
    m.root = root.ident.to_string();
    let p = vec![m.root.clone()];
    m.modules.insert(p.clone());
    match &root.content {
        Some((_, items)) => walk(&mut m, &p, items),
        None => return Err("root module has no body".into()),
    }
    Ok(m)
}

/// segments of a syn path without generic arguments
pub fn path_idents(p: &syn::Path) -> Vec<String> {
    p.segments.iter().map(|s| s.ident.to_string()).collect()
}

/// generic type arguments of the last segment
pub fn last_args(p: &syn::Path) -> Result<Vec<syn::Type>, String> {
    for (i, s) in p.segments.iter().enumerate() {
        if i + 1 != p.segments.len() && !s.arguments.is_empty() {
            return Err(format!("generic arguments on inner segment of {}", tokens_nospace(p)));
        }
    }
    let Some(last) = p.segments.last() else {
        return Err("empty path".into());
    };
    match &last.arguments {
        syn::PathArguments::None => Ok(vec![]),
        syn::PathArguments::AngleBracketed(a) => a
            .args
            .iter()
            .map(|g| match g {
                syn::GenericArgument::Type(t) => Ok(t.clone()),
                other => Err(format!("non-type generic argument {}", tokens_nospace(other))),
            })
            .collect(),
        syn::PathArguments::Parenthesized(_) => Err("parenthesized arguments".into()),
    }
}

/// Replace single-ident type paths that name a generic parameter by the given types.
pub fn subst_type(t: &syn::Type, env: &BTreeMap<String, syn::Type>) -> syn::Type {
    use syn::Type as T;
    match t {
        T::Path(tp) => {
            if tp.qself.is_none() && tp.path.leading_colon.is_none() && tp.path.segments.len() == 1 {
                let seg = &tp.path.segments[0];
                if seg.arguments.is_empty() {
                    if let Some(r) = env.get(&seg.ident.to_string()) {
                        return r.clone();
                    }
                }
            }
            let mut tp = tp.clone();
            for seg in tp.path.segments.iter_mut() {
                if let syn::PathArguments::AngleBracketed(a) = &mut seg.arguments {
                    for g in a.args.iter_mut() {
                        if let syn::GenericArgument::Type(inner) = g {
                            *inner = subst_type(inner, env);
                        }
                    }
                }
            }
            T::Path(tp)
        }
        T::Tuple(tt) => {
            let mut tt = tt.clone();
            for e in tt.elems.iter_mut() {
                *e = subst_type(e, env);
            }
            T::Tuple(tt)
        }
        T::Array(a) => {
            let mut a = a.clone();
            *a.elem = subst_type(&a.elem, env);
            T::Array(a)
        }
        T::Paren(p) => subst_type(&p.elem, env),
        T::Group(p) => subst_type(&p.elem, env),
        other => other.clone(),
    }
}

/// all single-ident, argument-free, non-absolute type paths in a type (candidate parameter uses)
pub fn bare_idents(t: &syn::Type, out: &mut Vec<String>) {
    use syn::Type as T;
    match t {
        T::Path(tp) => {
            if tp.qself.is_none() && tp.path.leading_colon.is_none() && tp.path.segments.len() == 1
                && tp.path.segments[0].arguments.is_empty()
            {
                out.push(tp.path.segments[0].ident.to_string());
            }
            for seg in tp.path.segments.iter() {
                if let syn::PathArguments::AngleBracketed(a) = &seg.arguments {
                    for g in a.args.iter() {
                        if let syn::GenericArgument::Type(inner) = g {
                            bare_idents(inner, out);
                        }
                    }
                }
            }
        }
        T::Tuple(tt) => tt.elems.iter().for_each(|e| bare_idents(e, out)),
        T::Array(a) => bare_idents(&a.elem, out),
        T::Paren(p) => bare_idents(&p.elem, out),
        T::Group(p) => bare_idents(&p.elem, out),
        _ => {}
    }
}
