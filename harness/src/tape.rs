//! Choice tape: a byte string decoded left-to-right into structured cases.
//!
//! Conventions (DESIGN.md Appendix A): reading past the end yields 0, `choose(n)` is monotone in
//! the byte, alternatives are ordered simplest-first, so deleting or lowering bytes simplifies
//! the decoded case. Every random choice of every generator goes through a `Tape`, which is what
//! makes proptest shrinking, libFuzzer mutation and exact replay work with the same decoders.

#[derive(Clone, Debug)]
pub struct Tape<'a> {
    bytes: &'a [u8],
    pos: usize,
    /// fuel bounds the size of the decoded case independently of the tape length.
    pub fuel: i64,
}

impl<'a> Tape<'a> {
    pub fn new(bytes: &'a [u8]) -> Self {
        Tape {
            bytes,
            pos: 0,
            fuel: 400,
        }
    }
    pub fn with_fuel(bytes: &'a [u8], fuel: i64) -> Self {
        Tape {
            bytes,
            pos: 0,
            fuel,
        }
    }
    pub fn byte(&mut self) -> u8 {
        let b = self.bytes.get(self.pos).copied().unwrap_or(0);
        self.pos += 1;
        b
    }
    pub fn exhausted(&self) -> bool {
        self.pos >= self.bytes.len()
    }
    pub fn consumed(&self) -> usize {
        self.pos.min(self.bytes.len())
    }
    /// Uniform-ish choice in `0..n` (n >= 1), monotone in the byte.
    pub fn choose(&mut self, n: usize) -> usize {
        debug_assert!(n >= 1);
        if n <= 1 {
            return 0;
        }
        if n <= 256 {
            (self.byte() as usize * n) >> 8
        } else {
            let v = ((self.byte() as usize) << 8) | self.byte() as usize;
            (v * n) >> 16
        }
    }
    /// true with probability ~ num/256.
    pub fn chance(&mut self, num: u16) -> bool {
        // byte 0 => false (simplest)
        let b = self.byte() as u16;
        b >= 256 - num.min(256)
    }
    pub fn flag(&mut self) -> bool {
        self.byte() >= 128
    }
    /// Weighted choice; weights are relative, alternative 0 is the simplest.
    pub fn weighted(&mut self, weights: &[u32]) -> usize {
        let total: u32 = weights.iter().sum();
        debug_assert!(total > 0);
        let x = (self.byte() as u32 * total) >> 8;
        let mut acc = 0;
        for (i, w) in weights.iter().enumerate() {
            acc += w;
            if x < acc {
                return i;
            }
        }
        weights.len() - 1
    }
    pub fn u64(&mut self) -> u64 {
        let mut v = 0u64;
        for _ in 0..8 {
            v = (v << 8) | self.byte() as u64;
        }
        v
    }
    pub fn take_fuel(&mut self, n: i64) -> bool {
        self.fuel -= n;
        self.fuel >= 0
    }
    pub fn has_fuel(&self) -> bool {
        self.fuel > 0
    }
}

pub fn splitmix64(mut x: u64) -> u64 {
    x = x.wrapping_add(0x9E3779B97F4A7C15);
    let mut z = x;
    z = (z ^ (z >> 30)).wrapping_mul(0xBF58476D1CE4E5B9);
    z = (z ^ (z >> 27)).wrapping_mul(0x94D049BB133111EB);
    z ^ (z >> 31)
}

pub fn mix(parts: &[u64]) -> u64 {
    let mut h = 0x243F6A8885A308D3u64;
    for p in parts {
        h = splitmix64(h ^ *p);
    }
    h
}

/// FNV-1a based 64-bit hash of a byte string with a fixed key (deterministic across runs).
pub fn hash_bytes(b: &[u8]) -> u64 {
    let mut h: u64 = 0xcbf29ce484222325;
    for x in b {
        h ^= *x as u64;
        h = h.wrapping_mul(0x100000001b3);
    }
    splitmix64(h)
}

pub fn hash_str(s: &str) -> u64 {
    hash_bytes(s.as_bytes())
}

pub fn hex(b: &[u8]) -> String {
    let mut s = String::with_capacity(b.len() * 2);
    for x in b {
        s.push_str(&format!("{:02x}", x));
    }
    s
}

pub fn unhex(s: &str) -> Option<Vec<u8>> {
    if s.len() % 2 != 0 {
        return None;
    }
    (0..s.len() / 2)
        .map(|i| u8::from_str_radix(&s[2 * i..2 * i + 2], 16).ok())
        .collect()
}
