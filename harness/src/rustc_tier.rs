//! rustc tier (DESIGN.md 4.4): generated modules are compiled for real with parity-scale-codec's
//! derives and, in round-trip mode, every registry type decodes valid encodings produced by an
//! independent encoder, consumes all input and re-encodes to the same bytes.

use crate::case::*;
use crate::engine::{guard, verif_dir, Failure};
use crate::gen::GenOpts;
use crate::lower::{def_prim, registry_json};
use crate::program::Prim;
use crate::settings::*;
use crate::tape::{hex, mix, Tape};
use scale_info::{PortableRegistry, TypeDef};
use scale_typegen::utils::ensure_unique_type_paths;
use serde_json::json;
use std::collections::BTreeMap;
use std::fmt::Write as _;
use std::path::{Path, PathBuf};

pub fn rustc_settings(t: &mut Tape, reg: &PortableRegistry) -> SettingsSpec {
    let mut s = SettingsSpec::default();
    s.root = pick_root(t, reg);
    s.alloc = if t.flag() { Some("::alloc".into()) } else { None };
    s.docs = !t.chance(60);
    s.compact_as = Some(COMPACT_AS_PATH.into());
    s.global_derives = vec![
        "::vsupport::codec::Encode".into(),
        "::vsupport::codec::Decode".into(),
        "Debug".into(),
        "Clone".into(),
    ];
    // as subxt configures it: without `dumb_trait_bound` parity-scale-codec's derive puts the field types
    // into the where clause, which overflows (rust-lang/rust#47032) for every recursive generic type whose
    // self reference is written with a qualified path - and the generator always qualifies paths
    s.global_attrs.push("#[codec(dumb_trait_bound)]".into());
    if t.flag() {
        s.global_attrs.push("#[allow(dead_code)]".into());
    }
    let paths = user_paths(reg);
    for n in ["Lsb0", "Msb0"] {
        let src = vec!["bitvec".to_string(), "order".to_string(), n.to_string()];
        if paths.contains(&src) {
            s.substitutes
                .push((format!("bitvec::order::{n}"), format!("::vsupport::bits::{n}")));
        }
    }
    s
}

pub fn rustc_gen_opts() -> GenOpts {
    let mut o = GenOpts::full();
    o.ord_keys_only = true;
    o.manual_prims = false;
    // parity-scale-codec implements neither Encode nor Decode for `char`: such registries cannot be
    // compiled with codec derives whatever the generator emits
    o.chars = false;
    // a generated `DecodedBits<_0, _1>` compiles only if the user's bit sequence type has impls
    // without `BitStore`/`BitOrder` bounds; neither subxt's nor the support crate's has
    o.bit_params = false;
    o
}

// ---------------------------------------------------------------------------------------------
// independent SCALE encoder of generated values over the registry

fn compact_u128(v: u128, out: &mut Vec<u8>) {
    if v < 1 << 6 {
        out.push((v as u8) << 2);
    } else if v < 1 << 14 {
        out.extend_from_slice(&(((v as u16) << 2) | 1).to_le_bytes());
    } else if v < 1 << 30 {
        out.extend_from_slice(&(((v as u32) << 2) | 2).to_le_bytes());
    } else {
        let bytes = v.to_le_bytes();
        let n = 16 - (v.leading_zeros() as usize / 8);
        let n = n.max(4);
        out.push((((n - 4) as u8) << 2) | 3);
        out.extend_from_slice(&bytes[..n]);
    }
}

/// minimal value height of every type (None = no finite value: empty enum / unguarded recursion)
fn heights(reg: &PortableRegistry) -> Vec<Option<u32>> {
    let n = reg.types.len();
    let mut h: Vec<Option<u32>> = vec![None; n];
    loop {
        let mut changed = false;
        for t in &reg.types {
            let all = |ids: Vec<u32>, h: &Vec<Option<u32>>| -> Option<u32> {
                let mut m = 0;
                for i in ids {
                    m = m.max(h[i as usize]?);
                }
                Some(m + 1)
            };
            let new = match &t.ty.type_def {
                TypeDef::Primitive(_) | TypeDef::BitSequence(_) => Some(0),
                TypeDef::Sequence(_) => Some(0),
                TypeDef::Array(a) => {
                    if a.len == 0 {
                        Some(0)
                    } else {
                        all(vec![a.type_param.id], &h)
                    }
                }
                TypeDef::Tuple(tu) => all(tu.fields.iter().map(|f| f.id).collect(), &h),
                TypeDef::Compact(c) => all(vec![c.type_param.id], &h),
                TypeDef::Composite(c) => all(c.fields.iter().map(|f| f.ty.id).collect(), &h),
                TypeDef::Variant(v) => v
                    .variants
                    .iter()
                    .filter_map(|v| all(v.fields.iter().map(|f| f.ty.id).collect(), &h))
                    .min(),
            };
            if new.is_some() && (h[t.id as usize].is_none() || new < h[t.id as usize]) {
                h[t.id as usize] = new;
                changed = true;
            }
        }
        if !changed {
            break;
        }
    }
    h
}

struct Enc<'a> {
    reg: &'a PortableRegistry,
    h: Vec<Option<u32>>,
}

impl<'a> Enc<'a> {
    fn uint_width(&self, mut id: u32) -> Option<usize> {
        for _ in 0..8 {
            match &self.reg.resolve(id)?.type_def {
                TypeDef::Primitive(p) => return def_prim(p).width().filter(|_| def_prim(p).is_uint()),
                TypeDef::Composite(c) if c.fields.len() == 1 => id = c.fields[0].ty.id,
                _ => return None,
            }
        }
        None
    }

    fn int(&self, t: &mut Tape, width: usize, signed: bool, out: &mut Vec<u8>) {
        let mut bytes = vec![0u8; width];
        match t.choose(5) {
            0 => {}
            1 => bytes[0] = 1,
            2 => {
                // max
                for b in bytes.iter_mut() {
                    *b = 0xff;
                }
                if signed {
                    bytes[width - 1] = 0x7f;
                }
            }
            3 => {
                if signed {
                    bytes[width - 1] = 0x80; // min
                } else {
                    bytes[width - 1] = 0x80;
                }
            }
            _ => {
                for b in bytes.iter_mut() {
                    *b = t.byte();
                }
            }
        }
        out.extend_from_slice(&bytes);
    }

    fn enc(&self, id: u32, t: &mut Tape, depth: u32, out: &mut Vec<u8>) -> Result<(), String> {
        let ty = self.reg.resolve(id).ok_or("missing type")?;
        let deep = depth > 5 || !t.has_fuel();
        t.take_fuel(1);
        match &ty.type_def {
            TypeDef::Primitive(p) => {
                let p = def_prim(p);
                match p {
                    Prim::Bool => out.push(t.choose(2) as u8),
                    Prim::Char => {
                        let c = ['a', '0', 'é', '\u{10FFFF}', '\u{0}', '✓'][t.choose(6)];
                        out.extend_from_slice(&(c as u32).to_le_bytes());
                    }
                    Prim::Str => {
                        let s = ["", "hi", "ünï ✓", "a longer string with \"quotes\""][t.choose(4)];
                        compact_u128(s.len() as u128, out);
                        out.extend_from_slice(s.as_bytes());
                    }
                    Prim::U256 | Prim::I256 => return Err("256-bit".into()),
                    _ => self.int(t, p.width().unwrap(), !p.is_uint(), out),
                }
                Ok(())
            }
            TypeDef::Compact(c) => {
                let w = self.uint_width(c.type_param.id).ok_or("compact over non-uint")?;
                let max: u128 = if w == 16 { u128::MAX } else { (1u128 << (w * 8)) - 1 };
                let v = match t.choose(7) {
                    0 => 0,
                    1 => 63.min(max),
                    2 => 64.min(max),
                    3 => 16383.min(max),
                    4 => 16384.min(max),
                    5 => max,
                    _ => (t.u64() as u128 | ((t.u64() as u128) << 64)) & max,
                };
                compact_u128(v, out);
                Ok(())
            }
            TypeDef::Sequence(s) => {
                let n = if deep || self.h[s.type_param.id as usize].is_none() {
                    0
                } else {
                    t.choose(4)
                };
                compact_u128(n as u128, out);
                for _ in 0..n {
                    self.enc(s.type_param.id, t, depth + 1, out)?;
                }
                Ok(())
            }
            TypeDef::Array(a) => {
                for _ in 0..a.len {
                    self.enc(a.type_param.id, t, depth + 1, out)?;
                }
                Ok(())
            }
            TypeDef::Tuple(tu) => {
                for f in &tu.fields {
                    self.enc(f.id, t, depth + 1, out)?;
                }
                Ok(())
            }
            TypeDef::Composite(c) => {
                // std types with value constraints beyond their SCALE shape
                let prelude = if ty.path.segments.len() == 1 { ty.path.segments[0].as_str() } else { "" };
                if prelude == "Duration" {
                    out.extend_from_slice(&t.u64().to_le_bytes());
                    out.extend_from_slice(&((t.u64() % 1_000_000_000) as u32).to_le_bytes());
                    return Ok(());
                }
                if prelude.starts_with("NonZero") && c.fields.len() == 1 {
                    let start = out.len();
                    self.enc(c.fields[0].ty.id, t, depth + 1, out)?;
                    if out[start..].iter().all(|b| *b == 0) {
                        out[start] = 1;
                    }
                    return Ok(());
                }
                if matches!(prelude, "BTreeMap" | "BTreeSet" | "BinaryHeap") && c.fields.len() == 1 {
                    // at most one element: decoding sorts / heapifies, so longer inputs need not re-encode identically
                    if let Some(TypeDef::Sequence(s)) = self.reg.resolve(c.fields[0].ty.id).map(|t| &t.type_def) {
                        let n = if deep || self.h[s.type_param.id as usize].is_none() { 0 } else { t.choose(2) };
                        compact_u128(n as u128, out);
                        for _ in 0..n {
                            self.enc(s.type_param.id, t, depth + 1, out)?;
                        }
                        return Ok(());
                    }
                }
                for f in &c.fields {
                    self.enc(f.ty.id, t, depth + 1, out)?;
                }
                Ok(())
            }
            TypeDef::Variant(v) => {
                let finite: Vec<(&scale_info::Variant<scale_info::form::PortableForm>, u32)> = v
                    .variants
                    .iter()
                    .filter_map(|var| {
                        let mut m = 0;
                        for f in &var.fields {
                            m = m.max(self.h[f.ty.id as usize]?);
                        }
                        Some((var, m))
                    })
                    .collect();
                if finite.is_empty() {
                    return Err("no finite variant".into());
                }
                let var = if deep {
                    finite.iter().min_by_key(|x| x.1).unwrap().0
                } else {
                    finite[t.choose(finite.len())].0
                };
                out.push(var.index);
                for f in &var.fields {
                    self.enc(f.ty.id, t, depth + 1, out)?;
                }
                Ok(())
            }
            TypeDef::BitSequence(b) => {
                use scale_bits::scale::format::{Format, OrderFormat, StoreFormat};
                let store = match self.reg.resolve(b.bit_store_type.id).map(|t| &t.type_def) {
                    Some(TypeDef::Primitive(p)) => match def_prim(p) {
                        Prim::U8 => StoreFormat::U8,
                        Prim::U16 => StoreFormat::U16,
                        Prim::U32 => StoreFormat::U32,
                        Prim::U64 => StoreFormat::U64,
                        _ => return Err("bit store".into()),
                    },
                    _ => return Err("bit store".into()),
                };
                let order = match self
                    .reg
                    .resolve(b.bit_order_type.id)
                    .and_then(|t| t.path.segments.last().cloned())
                    .as_deref()
                {
                    Some("Lsb0") => OrderFormat::Lsb0,
                    Some("Msb0") => OrderFormat::Msb0,
                    _ => return Err("bit order".into()),
                };
                let n = [0usize, 1, 7, 8, 9, 17, 40, 70][t.choose(8)];
                let bits: Vec<bool> = (0..n).map(|_| t.flag()).collect();
                out.extend_from_slice(&scale_bits::encode_using_format(bits.into_iter(), Format::new(store, order)));
                Ok(())
            }
        }
    }
}

/// up to `n` valid encodings of type `id`, each validated by scale-value's decoder
pub fn valid_encodings(reg: &PortableRegistry, id: u32, seed: u64, n: usize) -> Vec<Vec<u8>> {
    let e = Enc {
        reg,
        h: heights(reg),
    };
    if e.h[id as usize].is_none() {
        return vec![];
    }
    let mut out = vec![];
    for k in 0..n {
        let bytes: Vec<u8> = (0..96).map(|i| (mix(&[seed, id as u64, k as u64, i]) & 0xff) as u8).collect();
        let mut t = Tape::with_fuel(&bytes, 60);
        let mut buf = vec![];
        if e.enc(id, &mut t, 0, &mut buf).is_ok() && buf.len() <= 4096 {
            // cross-check with the third-party decoder: it must accept and consume everything
            let mut cur = &buf[..];
            let ok = guard(|| scale_value::scale::decode_as_type(&mut cur, id, reg).is_ok()).unwrap_or(false);
            if ok && cur.is_empty() && !out.contains(&buf) {
                out.push(buf);
            }
        }
    }
    out
}

// ---------------------------------------------------------------------------------------------
// probe crate

pub struct ProbeCase {
    pub name: String,
    pub tokens: String,
    /// (id, type tokens relative to the case module, encodings)
    pub checks: Vec<(u32, String, Vec<Vec<u8>>)>,
    pub decoded: serde_json::Value,
}

fn write_crate(dir: &Path, cases: &[&ProbeCase]) -> std::io::Result<()> {
    std::fs::create_dir_all(dir.join("src"))?;
    let vs = verif_dir().join("probe_template").join("vsupport");
    std::fs::write(
        dir.join("Cargo.toml"),
        format!(
            "[package]\nname = \"probe\"\nversion = \"0.1.0\"\nedition = \"2021\"\n[workspace]\n[dependencies]\nvsupport = {{ path = \"{}\" }}\nparity-scale-codec = {{ version = \"3.6.12\", features = [\"derive\"] }}\n[profile.dev]\ndebug = 0\nopt-level = 0\n",
            vs.display()
        ),
    )?;
    let _ = std::fs::copy("/repo/Cargo.lock", dir.join("Cargo.lock"));
    let mut main = String::new();
    main.push_str("#![allow(warnings)]\nextern crate alloc;\nuse parity_scale_codec::{Decode, Encode};\n");
    main.push_str(
        "pub fn unhex(s: &str) -> Vec<u8> { (0..s.len()/2).map(|i| u8::from_str_radix(&s[2*i..2*i+2], 16).unwrap()).collect() }\n\
         pub fn check<T: Decode + Encode>(what: &str, h: &str, bad: &mut u32) {\n\
             let bytes = unhex(h); let mut cur = &bytes[..];\n\
             match T::decode(&mut cur) {\n\
                 Err(e) => { println!(\"FAIL {what} bytes={h} decode error: {e}\"); *bad += 1; }\n\
                 Ok(v) => {\n\
                     if !cur.is_empty() { println!(\"FAIL {what} bytes={h} {} bytes not consumed\", cur.len()); *bad += 1; }\n\
                     else { let back = v.encode(); if back != bytes { println!(\"FAIL {what} bytes={h} re-encodes differently\"); *bad += 1; } }\n\
                 }\n\
             }\n\
         }\n",
    );
    for c in cases {
        let _ = writeln!(main, "pub mod {} {{\n{}\n pub fn run(bad: &mut u32) {{", c.name, c.tokens);
        for (id, ty, encs) in &c.checks {
            for e in encs {
                let _ = writeln!(main, "  super::check::<{ty}>(\"{}:{id}\", \"{}\", bad);", c.name, hex(e));
            }
        }
        main.push_str(" }\n}\n");
    }
    // big arrays of big items live on the stack of an unoptimised build: give it room
    main.push_str("fn main() { std::thread::Builder::new().stack_size(4usize << 30).spawn(real_main).unwrap().join().unwrap(); }\n");
    // an optional argument restricts the run to one case; the case being run is announced on stderr, so that a
    // death without verdict can be attributed
    main.push_str("fn real_main() { let only = std::env::args().nth(1); let mut bad = 0u32;\n");
    for c in cases {
        let _ = writeln!(
            main,
            " if only.as_deref().map(|o| o == \"{0}\").unwrap_or(true) {{ eprintln!(\"CASE {0}\"); {0}::run(&mut bad); }}",
            c.name
        );
    }
    main.push_str(" println!(\"DONE bad={bad}\"); }\n");
    std::fs::write(dir.join("src").join("main.rs"), main)
}

fn cargo(dir: &Path, args: &[&str]) -> (bool, String) {
    let target = verif_dir().join("work").join("probe-target");
    let out = std::process::Command::new("cargo")
        .args(args)
        .current_dir(dir)
        .env("CARGO_NET_OFFLINE", "true")
        .env("CARGO_TARGET_DIR", &target)
        .env("CARGO_TERM_COLOR", "never")
        .env("RUSTFLAGS", "-Awarnings")
        .output();
    match out {
        Ok(o) => (
            o.status.success(),
            format!("{}{}", String::from_utf8_lossy(&o.stdout), String::from_utf8_lossy(&o.stderr)),
        ),
        Err(e) => (false, format!("cannot run cargo: {e}")),
    }
}

fn first_error(log: &str) -> String {
    let mut out = String::new();
    let mut on = false;
    for l in log.lines() {
        if l.starts_with("error") {
            on = true;
        }
        if on {
            out.push_str(l);
            out.push('\n');
            if out.len() > 1500 {
                break;
            }
        }
    }
    out
}

/// Compile (and in round-trip mode run) a batch. On a compile error the batch is bisected to one case.
pub fn run_batch(tag: &str, cases: &[ProbeCase], run: bool) -> Result<u64, Failure> {
    let dir: PathBuf = verif_dir().join("work").join(format!("probe-{tag}"));
    let _ = std::fs::remove_dir_all(&dir);
    let all: Vec<&ProbeCase> = cases.iter().collect();
    write_crate(&dir, &all).map_err(|e| Failure::infra(format!("cannot write probe crate: {e}")))?;
    let (ok, log) = cargo(&dir, &["build", "--offline"]);
    if !ok {
        if log.contains("cannot run cargo") || log.contains("failed to select a version") || log.contains("no matching package") {
            let _ = std::fs::remove_dir_all(&dir);
            return Err(Failure::infra(format!("probe crate cannot be built offline: {}", first_error(&log))));
        }
        // bisect
        let mut lo: Vec<&ProbeCase> = all.clone();
        let mut last_log = log;
        while lo.len() > 1 {
            let (a, b) = lo.split_at(lo.len() / 2);
            let _ = write_crate(&dir, a);
            let (ok_a, log_a) = cargo(&dir, &["build", "--offline"]);
            if !ok_a {
                lo = a.to_vec();
                last_log = log_a;
            } else {
                let _ = write_crate(&dir, b);
                let (ok_b, log_b) = cargo(&dir, &["build", "--offline"]);
                if !ok_b {
                    lo = b.to_vec();
                    last_log = log_b;
                } else {
                    // only fails together: report the whole remaining set
                    break;
                }
            }
        }
        let c = lo[0];
        let keep = verif_dir().join("replays").join(format!("probe-crate-{tag}"));
        let _ = std::fs::remove_dir_all(&keep);
        let _ = std::fs::create_dir_all(verif_dir().join("replays"));
        let _ = write_crate(&dir, &lo);
        let _ = std::fs::rename(&dir, &keep);
        return Err(Failure::new(format!(
            "the generated module does not compile under rustc with codec derives: {}",
            first_error(&last_log)
        ))
        .sig("rustc:compile-error")
        .with(json!({"case": c.decoded, "probe_crate": keep.display().to_string(), "tokens": c.tokens})));
    }
    let mut checks = 0u64;
    if run {
        let (ok, out) = cargo(&dir, &["run", "--offline", "-q"]);
        if !ok || !out.contains("DONE bad=0") {
            let Some(fail_line) = out.lines().find(|l| l.starts_with("FAIL")).map(|l| l.to_string()) else {
                // the binary died without reporting a comparison (stack overflow, OOM, signal): that
                // is trouble of the probe, never a statement about the generated types
                let last_case = out.lines().filter(|l| l.starts_with("CASE ")).last().unwrap_or("").to_string();
                if std::env::var("VERIF_KEEP_PROBE").is_ok() {
                    let keep = verif_dir().join("replays").join(format!("probe-crate-died-{tag}"));
                    let _ = std::fs::remove_dir_all(&keep);
                    let _ = std::fs::rename(&dir, &keep);
                    eprintln!("probe crate kept at {} (last {last_case})", keep.display());
                }
                let _ = std::fs::remove_dir_all(&dir);
                return Err(Failure::infra(format!(
                    "probe binary died without a verdict (last {last_case}): {}",
                    out.lines().filter(|l| !l.starts_with("CASE ")).collect::<Vec<_>>().join(" ").chars().take(400).collect::<String>()
                )));
            };
            // FAIL <case>:<id> ...
            let case_name = fail_line.split_whitespace().nth(1).and_then(|s| s.split(':').next()).unwrap_or("");
            let c = cases.iter().find(|c| c.name == case_name);
            let _ = std::fs::remove_dir_all(&dir);
            return Err(Failure::new(format!("compiled generated type is not wire-faithful: {fail_line}"))
                .sig("rustc:round-trip")
                .with(json!({"case": c.map(|c| c.decoded.clone()), "tokens": c.map(|c| c.tokens.clone()), "output": out.chars().take(2000).collect::<String>()})));
        }
        checks = cases.iter().map(|c| c.checks.iter().map(|x| x.2.len() as u64).sum::<u64>()).sum();
    }
    let _ = std::fs::remove_dir_all(&dir);
    Ok(checks)
}

/// some item passes a generic parameter into a position that needs `HasCompact` without having a
/// `#[codec(compact)]` field of that parameter itself (the derive then has no bound to offer)
fn passes_has_compact_param(gm: &crate::genmod::GMod) -> bool {
    use crate::genmod::*;
    use std::collections::BTreeSet;
    let fields_of = |item: &GItem| -> Vec<GField> {
        match &item.kind {
            GKind::Struct(f) => f.list().to_vec(),
            GKind::Enum(vs) => vs.iter().flat_map(|v| v.fields.list().to_vec()).collect(),
        }
    };
    // direct requirement: compact field typed by the parameter
    let mut direct: BTreeSet<(Vec<String>, usize)> = BTreeSet::new();
    for (p, item) in &gm.items {
        for f in fields_of(item) {
            if f.compact {
                let t = tokens_nospace(&f.ty);
                if let Some(j) = item.generics.iter().position(|g| *g == t) {
                    direct.insert((p.clone(), j));
                }
            }
        }
    }
    let mut req = direct.clone();
    fn passes(t: &syn::Type, g: &str, root: &str, req: &BTreeSet<(Vec<String>, usize)>) -> bool {
        use syn::Type as T;
        match t {
            T::Paren(p) => passes(&p.elem, g, root, req),
            T::Group(p) => passes(&p.elem, g, root, req),
            T::Tuple(tt) => tt.elems.iter().any(|e| passes(e, g, root, req)),
            T::Array(a) => passes(&a.elem, g, root, req),
            T::Path(tp) => {
                let idents = path_idents(&tp.path);
                let args = last_args(&tp.path).unwrap_or_default();
                let is_item = tp.path.leading_colon.is_none() && idents.first().map(|s| s == root).unwrap_or(false);
                // `Compact<_j>` written as a type needs `_j: HasCompact` just like a compact field of another item
                let is_compact_type = tp.path.leading_colon.is_some() && idents.last().map(|s| s == "Compact").unwrap_or(false);
                args.iter().enumerate().any(|(j, a)| {
                    ((is_compact_type || (is_item && req.contains(&(idents.clone(), j)))) && tokens_nospace(a) == g)
                        || passes(a, g, root, req)
                })
            }
            _ => false,
        }
    }
    loop {
        let mut changed = false;
        for (p, item) in &gm.items {
            for (j, g) in item.generics.iter().enumerate() {
                if req.contains(&(p.clone(), j)) {
                    continue;
                }
                if fields_of(item).iter().any(|f| passes(&f.ty, g, &gm.root, &req)) {
                    req.insert((p.clone(), j));
                    changed = true;
                }
            }
        }
        if !changed {
            break;
        }
    }
    req.iter().any(|r| !direct.contains(r))
}

/// Upper estimate of `size_of` of the generated type for a registry type: arrays are stored inline, so nested
/// arrays of nested generic instantiations multiply (`Option<[[Call<Call<Cow>>; 33]; 33]>` ...) and a value of such a
/// type does not fit on any stack although the type compiles. Heap types count as three words.
pub fn mem_size(reg: &PortableRegistry, id: u32, depth: usize) -> u128 {
    if depth > 48 {
        return 8;
    }
    let Some(ty) = reg.resolve(id) else { return 8 };
    let field = |f: &scale_info::Field<scale_info::form::PortableForm>| -> u128 {
        if f.type_name.as_deref().map(|n| n.contains("Box<")).unwrap_or(false) {
            8
        } else {
            mem_size(reg, f.ty.id, depth + 1)
        }
    };
    let first = ty.path.segments.first().map(|s| s.as_str()).unwrap_or("");
    let prelude = ty.path.segments.len() == 1;
    match &ty.type_def {
        TypeDef::Primitive(p) => match crate::lower::def_prim(p).width() {
            Some(w) => w as u128,
            None => 24,
        },
        TypeDef::Compact(c) => mem_size(reg, c.type_param.id, depth + 1),
        TypeDef::Sequence(_) => 24,
        TypeDef::BitSequence(_) => 32,
        TypeDef::Array(a) => (a.len as u128).saturating_mul(mem_size(reg, a.type_param.id, depth + 1)),
        TypeDef::Tuple(t) => t.fields.iter().fold(0u128, |acc, f| acc.saturating_add(mem_size(reg, f.id, depth + 1))),
        TypeDef::Composite(_) if prelude && matches!(first, "BTreeMap" | "BTreeSet" | "BinaryHeap") => 24,
        TypeDef::Composite(c) => c.fields.iter().fold(0u128, |acc, f| acc.saturating_add(field(f))).saturating_add(8),
        TypeDef::Variant(v) => v
            .variants
            .iter()
            .map(|v| v.fields.iter().fold(0u128, |acc, f| acc.saturating_add(field(f))))
            .max()
            .unwrap_or(0)
            .saturating_add(8),
    }
}

/// ids from which a type whose value does not fit (see `mem_size`) is reachable at all: decoding such an id may
/// build the big value on the stack even when it sits behind a Vec or a Box
pub fn reaches_oversized(reg: &PortableRegistry, limit: u128) -> std::collections::BTreeSet<u32> {
    let big: std::collections::BTreeSet<u32> = reg.types.iter().filter(|t| mem_size(reg, t.id, 0) > limit).map(|t| t.id).collect();
    let mut out = std::collections::BTreeSet::new();
    if big.is_empty() {
        return out;
    }
    let refs = |id: u32| -> Vec<u32> {
        let Some(t) = reg.resolve(id) else { return vec![] };
        let mut v: Vec<u32> = t.type_params.iter().filter_map(|p| p.ty.map(|x| x.id)).collect();
        match &t.type_def {
            TypeDef::Composite(c) => v.extend(c.fields.iter().map(|f| f.ty.id)),
            TypeDef::Variant(x) => v.extend(x.variants.iter().flat_map(|x| x.fields.iter().map(|f| f.ty.id))),
            TypeDef::Sequence(x) => v.push(x.type_param.id),
            TypeDef::Array(x) => v.push(x.type_param.id),
            TypeDef::Tuple(x) => v.extend(x.fields.iter().map(|f| f.id)),
            TypeDef::Compact(x) => v.push(x.type_param.id),
            TypeDef::BitSequence(_) | TypeDef::Primitive(_) => {}
        }
        v
    };
    for t in &reg.types {
        let mut seen = std::collections::BTreeSet::new();
        let mut stack = vec![t.id];
        while let Some(i) = stack.pop() {
            if !seen.insert(i) {
                continue;
            }
            if big.contains(&i) {
                out.insert(t.id);
                break;
            }
            stack.extend(refs(i));
        }
    }
    out
}

/// does a `DecodedBits<store, order>` in the (space-free) tokens name a generic parameter `_n`?
fn generic_bits(tokens: &str) -> bool {
    let mut rest = tokens;
    while let Some(i) = rest.find("DecodedBits<") {
        rest = &rest[i + "DecodedBits<".len()..];
        // the two arguments are paths without nested angle brackets
        let end = rest.find('>').unwrap_or(rest.len());
        if rest[..end].split(',').any(|a| a.starts_with('_') && a[1..].chars().all(|c| c.is_ascii_digit()) && a.len() > 1) {
            return true;
        }
    }
    false
}

fn generic_ord_key(gm: &crate::genmod::GMod) -> bool {
    use crate::genmod::*;
    fn walk(t: &syn::Type, generics: &[String]) -> bool {
        use syn::Type as T;
        match t {
            T::Paren(p) => walk(&p.elem, generics),
            T::Group(p) => walk(&p.elem, generics),
            T::Tuple(tt) => tt.elems.iter().any(|e| walk(e, generics)),
            T::Array(a) => walk(&a.elem, generics),
            T::Path(tp) => {
                let last = tp.path.segments.last().map(|s| s.ident.to_string()).unwrap_or_default();
                let args = last_args(&tp.path).unwrap_or_default();
                if matches!(last.as_str(), "BTreeMap" | "BTreeSet" | "BinaryHeap") && tp.path.leading_colon.is_some() {
                    if let Some(k) = args.first() {
                        let mut ids = vec![];
                        bare_idents(k, &mut ids);
                        if ids.iter().any(|i| generics.contains(i)) {
                            return true;
                        }
                    }
                }
                args.iter().any(|a| walk(a, generics))
            }
            _ => false,
        }
    }
    gm.items.values().any(|item| {
        let fields: Vec<&GField> = match &item.kind {
            GKind::Struct(f) => f.list().iter().collect(),
            GKind::Enum(vs) => vs.iter().flat_map(|v| v.fields.list().iter()).collect(),
        };
        fields.iter().any(|f| walk(&f.ty, &item.generics))
    })
}

/// generate `n` cases from tapes derived from `seed`
pub fn make_cases(seed: u64, stream: u64, n: usize, cf_only: bool, encodings: usize) -> (Vec<ProbeCase>, BTreeMap<String, u64>) {
    make_cases_ext(seed, stream, n, cf_only, encodings, false)
}

/// Standalone structs (C18): for every struct and every enum variant with fields of an item emitted
/// without generics, the struct built through the composite API is injected into the root module; its
/// checks are the payloads of valid encodings (for a variant: the encoding of an enum value of that
/// variant minus the index byte).
fn standalone(
    reg: &PortableRegistry,
    spec: &SettingsSpec,
    out: &GenOut,
    seed: u64,
    encodings: usize,
) -> Option<(String, Vec<(u32, String, Vec<Vec<u8>>)>)> {
    use scale_info::TypeDef;
    use scale_typegen::typegen::ir::type_ir::CompositeIR;
    use scale_typegen::typegen::ir::ToTokensWithSettings;
    use scale_typegen::typegen::type_params::TypeParameters;
    let settings = spec.build();
    let mut items = String::new();
    let mut checks = vec![];
    let oversized = reaches_oversized(reg, 256 << 10);
    let build = |name: &str, fields: &[scale_info::Field<scale_info::form::PortableForm>]| -> Option<String> {
        guard(|| {
            let g = scale_typegen::TypeGenerator::new(reg, &settings);
            let mut tp = TypeParameters::from_scale_info(&[]);
            let kind = g.create_composite_ir_kind(fields, &mut tp).ok()?;
            let ident: proc_macro2::Ident = syn::parse_str(name).ok()?;
            let comp = CompositeIR::new(ident, kind, Default::default());
            Some(g.upcast_composite(&comp).to_token_stream(&settings).to_string())
        })
        .ok()
        .flatten()
    };
    for (path, kept_id) in &out.kept {
        let mut full = vec![out.gm.root.clone()];
        full.extend(path.iter().cloned());
        let item = out.gm.items.get(&full)?;
        if !item.generics.is_empty() {
            continue;
        }
        let ty = reg.resolve(*kept_id)?;
        if oversized.contains(kept_id) {
            continue;
        }
        let encs = valid_encodings(reg, *kept_id, seed, encodings.max(6));
        match &ty.type_def {
            TypeDef::Composite(c) if !c.fields.is_empty() => {
                if encs.is_empty() {
                    continue;
                }
                let name = format!("VStandalone_{kept_id}");
                items.push_str(&build(&name, &c.fields)?);
                items.push(' ');
                checks.push((*kept_id, format!("{}::{name}", out.gm.root), encs));
            }
            TypeDef::Variant(v) => {
                for var in &v.variants {
                    if var.fields.is_empty() {
                        continue;
                    }
                    let payloads: Vec<Vec<u8>> = encs
                        .iter()
                        .filter(|e| e.first() == Some(&var.index))
                        .map(|e| e[1..].to_vec())
                        .collect();
                    if payloads.is_empty() {
                        continue;
                    }
                    let name = format!("VStandalone_{kept_id}_{}", var.index);
                    items.push_str(&build(&name, &var.fields)?);
                    items.push(' ');
                    checks.push((*kept_id, format!("{}::{name}", out.gm.root), payloads));
                }
            }
            _ => {}
        }
    }
    Some((items, checks))
}

pub fn make_cases_ext(seed: u64, stream: u64, n: usize, cf_only: bool, encodings: usize, standalone_structs: bool) -> (Vec<ProbeCase>, BTreeMap<String, u64>) {
    let mut out = vec![];
    let mut counters: BTreeMap<String, u64> = BTreeMap::new();
    let mut k = 0u64;
    while out.len() < n && k < (n as u64) * 6 {
        k += 1;
        let bytes: Vec<u8> = (0..512).map(|i| (mix(&[seed, stream, k, i]) & 0xff) as u8).collect();
        let mut t = Tape::new(&bytes);
        let opts = if cf_only {
            let mut o = rustc_gen_opts();
            o.assoc = false;
            o.two_versions = false;
            o
        } else {
            rustc_gen_opts()
        };
        let Some(case) = make_case(&mut t, &opts) else { continue };
        if cf_only && !case.cf.all_cf {
            *counters.entry("discard_non_cf".into()).or_insert(0) += 1;
            continue;
        }
        let spec = rustc_settings(&mut t, &case.low.registry);
        let mut reg = case.low.registry.clone();
        let mut res = run_typegen(&reg, &spec);
        if let GenResult::Err(ErrKind::DuplicateTypePath(_)) = res {
            if cf_only || crate::props::c03::collision_prone(&reg) {
                continue;
            }
            if !matches!(guard(|| ensure_unique_type_paths(&mut reg)), Ok(Ok(()))) {
                continue;
            }
            *counters.entry("deduplicated_first".into()).or_insert(0) += 1;
            res = run_typegen(&reg, &spec);
        }
        let GenResult::Ok(o) = res else { continue };
        // known finding c02:param-only-used-recursively: excluded by construction, counted
        if let Err(e) = crate::static_check::StaticCtx::new(&o.gm, &spec).check_module() {
            if e.contains("only used recursively") {
                *counters.entry("excluded_known_param_only_used_recursively".into()).or_insert(0) += 1;
                continue;
            }
            if e.contains("on a boxed field") {
                *counters.entry("excluded_known_compact_attr_on_boxed_field".into()).or_insert(0) += 1;
                continue;
            }
        }
        // `BTreeMap<_0, ..>` / `BTreeSet<_0>` / `BinaryHeap<_0>` need `_0: Ord`, a bound the generated code
        // cannot carry (downstream substitutes these collections): outside the compile-capable settings
        if generic_ord_key(&o.gm) {
            *counters.entry("excluded_generic_key_needs_ord_bound".into()).or_insert(0) += 1;
            continue;
        }
        // `Outer<_1>` passing `_1` into a type that needs `_1: HasCompact` without using it compactly itself
        // would need a trait bound on the generated item, which the generator never writes
        if passes_has_compact_param(&o.gm) {
            *counters.entry("excluded_nested_has_compact_bound".into()).or_insert(0) += 1;
            continue;
        }
        // `Vec<Compact<_0>>` beside `#[codec(dumb_trait_bound)]` (which this tier needs for recursive types)
        // sends rustc's trait solver into E0275; the bound `_0: HasCompact` cannot be written by the generator
        // a coincidence (the store type is also the argument of a type parameter) makes the bit sequence generic:
        // `DecodedBits<_0, Lsb0>` needs `_0: BitStore`, a bound the generated code cannot carry
        if generic_bits(&crate::genmod::nospace(&o.tokens)) {
            *counters.entry("excluded_generic_bit_store_needs_bound".into()).or_insert(0) += 1;
            continue;
        }
        if crate::genmod::nospace(&o.tokens).contains("Compact<_") {
            *counters.entry("excluded_compact_type_over_parameter".into()).or_insert(0) += 1;
            continue;
        }
        let settings = spec.build();
        let mut checks = vec![];
        let oversized = reaches_oversized(&reg, 256 << 10);
        if encodings > 0 {
            for ty in &reg.types {
                let encs = valid_encodings(&reg, ty.id, mix(&[seed, k]), encodings);
                if encs.is_empty() {
                    continue;
                }
                // a value of the type (and of everything decoded on the way) has to fit on the probe's stack many times over
                if oversized.contains(&ty.id) {
                    *counters.entry("byte_checks_skipped_value_larger_than_256k".into()).or_insert(0) += 1;
                    continue;
                }
                if let Ok(Ok(toks)) = resolve_tokens(&reg, &settings, ty.id) {
                    checks.push((ty.id, toks, encs));
                }
            }
        }
        for l in &case.gen.labels {
            *counters.entry(format!("label:{l}")).or_insert(0) += 1;
        }
        let mut tokens = o.tokens.clone();
        if standalone_structs {
            let Some((items, st_checks)) = standalone(&reg, &spec, &o, mix(&[seed, k, 18]), encodings) else {
                *counters.entry("standalone_api_failed".into()).or_insert(0) += 1;
                continue;
            };
            if st_checks.is_empty() {
                *counters.entry("no_standalone_struct_with_encodings".into()).or_insert(0) += 1;
                continue;
            }
            let marker = format!("use super :: {} ;", o.gm.root);
            let Some(at) = tokens.find(&marker) else { continue };
            tokens.insert_str(at + marker.len(), &format!(" {items} "));
            *counters.entry("standalone_structs".into()).or_insert(0) += st_checks.len() as u64;
            checks = st_checks;
        }
        out.push(ProbeCase {
            name: format!("case_{}", out.len()),
            tokens,
            checks,
            decoded: json!({"program": case.gen.prog.to_text(), "settings": spec.to_json(), "registry": registry_json(&reg)}),
        });
    }
    (out, counters)
}

/// the whole Polkadot module, compiled with codec derives (compile-only)
pub fn polkadot_case() -> Result<ProbeCase, Failure> {
    let reg = crate::metadata::polkadot();
    let mut s = SettingsSpec::default();
    s.root = "runtime_types".into();
    s.compact_as = Some(COMPACT_AS_PATH.into());
    s.global_derives = vec![
        "::vsupport::codec::Encode".into(),
        "::vsupport::codec::Decode".into(),
        "Debug".into(),
        "Clone".into(),
    ];
    s.global_attrs.push("#[codec(dumb_trait_bound)]".into());
    s.substitutes.push(("bitvec::order::Lsb0".into(), "::vsupport::bits::Lsb0".into()));
    s.substitutes.push(("bitvec::order::Msb0".into(), "::vsupport::bits::Msb0".into()));
    // keys of chain types are not Ord: the collections are substituted, as downstream users do
    s.substitutes.push(("BTreeMap".into(), "::vsupport::KeyedVec".into()));
    s.substitutes.push(("BTreeSet".into(), "::vsupport::PlainVec".into()));
    match run_typegen(reg, &s) {
        GenResult::Ok(o) => Ok(ProbeCase {
            name: "polkadot".into(),
            tokens: o.tokens.clone(),
            checks: vec![],
            decoded: json!({"polkadot": "full registry", "settings": s.to_json()}),
        }),
        _ => Err(Failure::new("the Polkadot registry does not generate").sig("rustc:polkadot-generation")),
    }
}
