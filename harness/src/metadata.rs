//! Real chain metadata corpus: the Polkadot registry shipped in /repo/artifacts and closed
//! sub-registries obtained with `PortableRegistry::retain`.

use crate::tape::Tape;
use parity_scale_codec::Decode;
use scale_info::PortableRegistry;
use std::sync::OnceLock;

static POLKADOT: OnceLock<PortableRegistry> = OnceLock::new();

pub fn polkadot() -> &'static PortableRegistry {
    POLKADOT.get_or_init(|| {
        let path = std::env::var("VERIF_METADATA")
            .unwrap_or_else(|_| "/repo/artifacts/polkadot_metadata.scale".to_string());
        let bytes = std::fs::read(&path).expect("polkadot metadata file");
        let metadata = frame_metadata::RuntimeMetadataPrefixed::decode(&mut &bytes[..])
            .expect("metadata decodes");
        match metadata.1 {
            frame_metadata::RuntimeMetadata::V14(m) => m.types,
            frame_metadata::RuntimeMetadata::V15(m) => m.types,
            _ => panic!("metadata too old"),
        }
    })
}

/// closed sub-registry reachable from 1..=max_roots random ids; returns (registry, old id -> new id)
pub fn sub_registry(t: &mut Tape, max_roots: usize) -> (PortableRegistry, std::collections::BTreeMap<u32, u32>) {
    let full = polkadot();
    let n = 1 + t.choose(max_roots);
    let mut roots = std::collections::BTreeSet::new();
    for _ in 0..n {
        roots.insert(t.choose(full.types.len()) as u32);
    }
    let mut reg = full.clone();
    let map = reg.retain(|id| roots.contains(&id));
    (reg, map)
}
