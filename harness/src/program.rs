//! Source programs: sets of Rust struct/enum definitions plus root types (DESIGN.md 3.1).
//! A program is the ground truth a registry is lowered from.

use std::fmt::Write;

#[derive(Clone, Copy, Debug, PartialEq, Eq, PartialOrd, Ord, Hash)]
pub enum Prim {
    Bool,
    Char,
    Str,
    U8,
    U16,
    U32,
    U64,
    U128,
    U256,
    I8,
    I16,
    I32,
    I64,
    I128,
    I256,
}

impl Prim {
    pub const RUST: [Prim; 13] = [
        Prim::Bool,
        Prim::Char,
        Prim::Str,
        Prim::U8,
        Prim::U16,
        Prim::U32,
        Prim::U64,
        Prim::U128,
        Prim::I8,
        Prim::I16,
        Prim::I32,
        Prim::I64,
        Prim::I128,
    ];
    pub const UINTS: [Prim; 5] = [Prim::U8, Prim::U16, Prim::U32, Prim::U64, Prim::U128];
    pub fn name(&self) -> &'static str {
        match self {
            Prim::Bool => "bool",
            Prim::Char => "char",
            Prim::Str => "String",
            Prim::U8 => "u8",
            Prim::U16 => "u16",
            Prim::U32 => "u32",
            Prim::U64 => "u64",
            Prim::U128 => "u128",
            Prim::U256 => "u256",
            Prim::I8 => "i8",
            Prim::I16 => "i16",
            Prim::I32 => "i32",
            Prim::I64 => "i64",
            Prim::I128 => "i128",
            Prim::I256 => "i256",
        }
    }
    pub fn is_uint(&self) -> bool {
        matches!(
            self,
            Prim::U8 | Prim::U16 | Prim::U32 | Prim::U64 | Prim::U128
        )
    }
    pub fn is_int(&self) -> bool {
        !matches!(self, Prim::Bool | Prim::Char | Prim::Str)
    }
    /// byte width of fixed-width primitives
    pub fn width(&self) -> Option<usize> {
        Some(match self {
            Prim::Bool | Prim::U8 | Prim::I8 => 1,
            Prim::U16 | Prim::I16 => 2,
            Prim::U32 | Prim::I32 | Prim::Char => 4,
            Prim::U64 | Prim::I64 => 8,
            Prim::U128 | Prim::I128 => 16,
            Prim::U256 | Prim::I256 => 32,
            Prim::Str => return None,
        })
    }
}

#[derive(Clone, Copy, Debug, PartialEq, Eq, PartialOrd, Ord, Hash)]
pub enum SeqKind {
    Vec,
    VecDeque,
    Slice,
}

#[derive(Clone, Copy, Debug, PartialEq, Eq, PartialOrd, Ord, Hash)]
pub enum PtrKind {
    Box,
    Rc,
    Arc,
    Ref,
}

#[derive(Clone, Debug, PartialEq, Eq, PartialOrd, Ord, Hash)]
pub enum Ty {
    Param(usize),
    /// `T::Inner` for the parameter with that index (associated-type stratum)
    Assoc(usize),
    /// `Prim(Str)` is `String`
    Prim(Prim),
    /// the unsized `str` (only written under a pointer or `Cow`): `&'static str` is Ptr(Ref, StrSlice)
    StrSlice,
    Def(usize, Vec<Ty>),
    Tuple(Vec<Ty>),
    Array(u32, Box<Ty>),
    Seq(SeqKind, Box<Ty>),
    Opt(Box<Ty>),
    Res(Box<Ty>, Box<Ty>),
    Ptr(PtrKind, Box<Ty>),
    Cow(Box<Ty>),
    Map(Box<Ty>, Box<Ty>),
    Set(Box<Ty>),
    Heap(Box<Ty>),
    Range(Box<Ty>),
    RangeIncl(Box<Ty>),
    NonZero(Prim),
    Duration,
    Compact(Box<Ty>),
    /// store primitive, msb0?
    BitVec(Prim, bool),
    /// `BitVec<S, O>` whose store and/or order is a type parameter (closed form normalises to BitVec)
    BitVecP(Box<Ty>, Box<Ty>),
    /// bitvec::order::{Lsb0,Msb0} marker types (msb0?)
    BitOrder(bool),
    Phantom(Box<Ty>),
}

impl Ty {
    pub fn children(&self) -> Vec<&Ty> {
        match self {
            Ty::Param(_) | Ty::Assoc(_) | Ty::Prim(_) | Ty::StrSlice | Ty::NonZero(_) | Ty::Duration | Ty::BitVec(..) | Ty::BitOrder(_) => {
                vec![]
            }
            Ty::Def(_, a) | Ty::Tuple(a) => a.iter().collect(),
            Ty::Array(_, t)
            | Ty::Seq(_, t)
            | Ty::Opt(t)
            | Ty::Ptr(_, t)
            | Ty::Cow(t)
            | Ty::Set(t)
            | Ty::Heap(t)
            | Ty::Range(t)
            | Ty::RangeIncl(t)
            | Ty::Compact(t)
            | Ty::Phantom(t) => vec![t],
            Ty::Res(a, b) | Ty::Map(a, b) | Ty::BitVecP(a, b) => vec![a, b],
        }
    }
    pub fn any(&self, f: &mut dyn FnMut(&Ty) -> bool) -> bool {
        if f(self) {
            return true;
        }
        self.children().into_iter().any(|c| c.any(f))
    }
    pub fn mentions_param(&self) -> bool {
        self.any(&mut |t| matches!(t, Ty::Param(_) | Ty::Assoc(_)))
    }
    pub fn uses_param(&self, i: usize) -> bool {
        self.any(&mut |t| matches!(t, Ty::Param(j) if *j == i))
    }
    /// substitute parameters by closed arguments; `Assoc(i)` is resolved through `assoc`
    pub fn subst(&self, args: &[Ty], assoc: &dyn Fn(&Ty) -> Ty) -> Ty {
        let s = |t: &Ty| Box::new(t.subst(args, assoc));
        match self {
            Ty::Param(i) => args[*i].clone(),
            Ty::Assoc(i) => assoc(&args[*i]),
            Ty::Prim(_) | Ty::StrSlice | Ty::NonZero(_) | Ty::Duration | Ty::BitVec(..) | Ty::BitOrder(_) => self.clone(),
            Ty::Def(d, a) => Ty::Def(*d, a.iter().map(|t| t.subst(args, assoc)).collect()),
            Ty::Tuple(a) => Ty::Tuple(a.iter().map(|t| t.subst(args, assoc)).collect()),
            Ty::Array(n, t) => Ty::Array(*n, s(t)),
            Ty::Seq(k, t) => Ty::Seq(*k, s(t)),
            Ty::Opt(t) => Ty::Opt(s(t)),
            Ty::Res(a, b) => Ty::Res(s(a), s(b)),
            Ty::Ptr(k, t) => Ty::Ptr(*k, s(t)),
            Ty::Cow(t) => Ty::Cow(s(t)),
            Ty::Map(a, b) => Ty::Map(s(a), s(b)),
            Ty::Set(t) => Ty::Set(s(t)),
            Ty::Heap(t) => Ty::Heap(s(t)),
            Ty::Range(t) => Ty::Range(s(t)),
            Ty::RangeIncl(t) => Ty::RangeIncl(s(t)),
            Ty::Compact(t) => Ty::Compact(s(t)),
            Ty::Phantom(t) => Ty::Phantom(s(t)),
            Ty::BitVecP(a, b) => Ty::BitVecP(s(a), s(b)),
        }
    }
    /// the closed Rust type itself, with representation-only normalisation (a `BitVecP` whose
    /// store and order are closed is the same type as the `BitVec`)
    pub fn exact(&self) -> Ty {
        let n = |t: &Ty| Box::new(t.exact());
        match self {
            Ty::Param(_) | Ty::Assoc(_) | Ty::Prim(_) | Ty::StrSlice | Ty::NonZero(_) | Ty::Duration | Ty::BitVec(..) | Ty::BitOrder(_) => {
                self.clone()
            }
            Ty::Def(d, a) => Ty::Def(*d, a.iter().map(|t| t.exact()).collect()),
            Ty::Tuple(a) => Ty::Tuple(a.iter().map(|t| t.exact()).collect()),
            Ty::Array(k, t) => Ty::Array(*k, n(t)),
            Ty::Seq(k, t) => Ty::Seq(*k, n(t)),
            Ty::Ptr(k, t) => Ty::Ptr(*k, n(t)),
            Ty::Opt(t) => Ty::Opt(n(t)),
            Ty::Res(a, b) => Ty::Res(n(a), n(b)),
            Ty::Cow(t) => Ty::Cow(n(t)),
            Ty::Map(a, b) => Ty::Map(n(a), n(b)),
            Ty::Set(t) => Ty::Set(n(t)),
            Ty::Heap(t) => Ty::Heap(n(t)),
            Ty::Range(t) => Ty::Range(n(t)),
            Ty::RangeIncl(t) => Ty::RangeIncl(n(t)),
            Ty::Compact(t) => Ty::Compact(n(t)),
            Ty::Phantom(t) => Ty::Phantom(n(t)),
            Ty::BitVecP(a, b) => match (a.exact(), b.exact()) {
                (Ty::Prim(p), Ty::BitOrder(m)) => Ty::BitVec(p, m),
                (x, y) => Ty::BitVecP(Box::new(x), Box::new(y)),
            },
        }
    }
    /// The key scale-info interns a closed type under: `TypeId::of::<T::Identity>()`. `Identity` is
    /// applied ONCE, at the top: `Box<X>`/`Rc<X>`/`Arc<X>`/`&X` are keyed as the exact type `X`,
    /// `Vec<X>`/`VecDeque<X>` as `[X]`, `String` as `str`, every `PhantomData<_>` as one type;
    /// everything below the top is compared as the exact Rust type. Hence `Box<Vec<u8>>` (keyed
    /// `Vec<u8>`) and `Vec<u8>` (keyed `[u8]`) are two registry entries with the same content.
    pub fn key(&self) -> Ty {
        match self.exact() {
            Ty::Ptr(_, inner) => *inner,
            Ty::Seq(_, t) => Ty::Seq(SeqKind::Slice, t),
            Ty::Prim(Prim::Str) => Ty::StrSlice,
            Ty::Phantom(_) => Ty::Phantom(Box::new(Ty::Tuple(vec![]))),
            o => o,
        }
    }
    /// does wrapping this closed type in a transparent pointer give a different registry entry?
    pub fn identity_changes_under_pointer(&self) -> bool {
        self.key() != self.exact()
    }
    pub fn normalize(&self) -> Ty {
        self.key()
    }
}

#[derive(Clone, Debug, PartialEq, Eq)]
pub struct ParamDecl {
    pub name: String,
    pub skipped: bool,
    /// `T: Config` parameter: only used through `T::Inner`
    pub config: bool,
    /// `T: HasCompact` parameter: instantiated with unsigned integers (or wrappers of them) only,
    /// may be used as `#[codec(compact)] f: T` and `Compact<T>`
    pub compactable: bool,
    /// `S: BitStore` parameter (instantiated with u8/u16/u32/u64), used as `BitVec<S, _>`
    pub bitstore: bool,
    /// `O: BitOrder` parameter (instantiated with Lsb0/Msb0), used as `BitVec<_, O>`
    pub bitorder: bool,
}

#[derive(Clone, Debug, PartialEq, Eq)]
pub struct FieldDef {
    pub name: Option<String>,
    pub ty: Ty,
    /// `#[codec(compact)]`
    pub compact_attr: bool,
    pub docs: Vec<String>,
}

#[derive(Clone, Debug, PartialEq, Eq)]
pub enum Fields {
    Unit,
    Named(Vec<FieldDef>),
    Unnamed(Vec<FieldDef>),
}

impl Fields {
    pub fn list(&self) -> &[FieldDef] {
        match self {
            Fields::Unit => &[],
            Fields::Named(f) | Fields::Unnamed(f) => f,
        }
    }
    pub fn list_mut(&mut self) -> Option<&mut Vec<FieldDef>> {
        match self {
            Fields::Unit => None,
            Fields::Named(f) | Fields::Unnamed(f) => Some(f),
        }
    }
}

#[derive(Clone, Debug, PartialEq, Eq)]
pub struct VariantDef {
    pub name: String,
    pub index: u8,
    pub fields: Fields,
    pub docs: Vec<String>,
}

#[derive(Clone, Debug, PartialEq, Eq)]
pub enum Body {
    Struct(Fields),
    Enum(Vec<VariantDef>),
}

#[derive(Clone, Debug, PartialEq, Eq)]
pub struct Def {
    pub path: Vec<String>,
    pub params: Vec<ParamDecl>,
    pub docs: Vec<String>,
    pub body: Body,
    /// for "config" unit structs: the closed type of `<Self as Config>::Inner`
    pub config_inner: Option<Ty>,
}

impl Def {
    pub fn name(&self) -> &str {
        self.path.last().unwrap()
    }
    pub fn all_fields(&self) -> Vec<&FieldDef> {
        match &self.body {
            Body::Struct(f) => f.list().iter().collect(),
            Body::Enum(vs) => vs.iter().flat_map(|v| v.fields.list().iter()).collect(),
        }
    }
    pub fn n_live_params(&self) -> usize {
        self.params.iter().filter(|p| !p.skipped).count()
    }
}

#[derive(Clone, Debug, PartialEq, Eq, Default)]
pub struct Program {
    pub defs: Vec<Def>,
    pub roots: Vec<Ty>,
    /// how std/codec types are spelled in the source (and therefore in the recorded type names):
    /// 0 = imported names (`Compact<T>`, `Box<T>`), 1 = path-qualified (`codec::Compact<T>`,
    /// `alloc::boxed::Box<T>`, `sp_std::vec::Vec<T>`)
    pub name_style: u8,
}

// ---------------------------------------------------------------------------------------------
// rendering

pub struct Render<'a> {
    pub prog: &'a Program,
    /// parameter names of the enclosing definition
    pub params: &'a [ParamDecl],
}

impl<'a> Render<'a> {
    /// source text of a type as the derive macro would record it in `type_name`
    /// (normalised like scale-info's clean_type_string).
    pub fn ty(&self, t: &Ty) -> String {
        // scale-info's clean_type_string removes the space before `(` and `[`
        self.ty_raw(t).replace(" (", "(").replace(" [", "[")
    }
    fn ty_raw(&self, t: &Ty) -> String {
        let list = |v: &[Ty]| v.iter().map(|t| self.ty(t)).collect::<Vec<_>>().join(", ");
        match t {
            Ty::Param(i) => self.params[*i].name.clone(),
            Ty::Assoc(i) => format!("{}::Inner", self.params[*i].name),
            Ty::Prim(p) => p.name().to_string(),
            Ty::StrSlice => "str".to_string(),
            Ty::Def(d, a) => {
                let n = self.prog.defs[*d].name();
                if a.is_empty() {
                    n.to_string()
                } else {
                    format!("{}<{}>", n, list(a))
                }
            }
            Ty::Tuple(a) => {
                if a.len() == 1 {
                    format!("({},)", self.ty(&a[0]))
                } else {
                    format!("({})", list(a))
                }
            }
            Ty::Array(n, t) => format!("[{}; {}]", self.ty(t), n),
            Ty::Seq(SeqKind::Vec, t) if self.prog.name_style == 1 => format!("sp_std::vec::Vec<{}>", self.ty(t)),
            Ty::Seq(SeqKind::Vec, t) => format!("Vec<{}>", self.ty(t)),
            Ty::Seq(SeqKind::VecDeque, t) => format!("VecDeque<{}>", self.ty(t)),
            Ty::Seq(SeqKind::Slice, t) => format!("[{}]", self.ty(t)),
            Ty::Opt(t) => format!("Option<{}>", self.ty(t)),
            Ty::Res(a, b) => format!("Result<{}, {}>", self.ty(a), self.ty(b)),
            Ty::Ptr(PtrKind::Box, t) if self.prog.name_style == 1 => format!("alloc::boxed::Box<{}>", self.ty(t)),
            Ty::Ptr(PtrKind::Box, t) => format!("Box<{}>", self.ty(t)),
            Ty::Ptr(PtrKind::Rc, t) => format!("Rc<{}>", self.ty(t)),
            Ty::Ptr(PtrKind::Arc, t) => format!("Arc<{}>", self.ty(t)),
            Ty::Ptr(PtrKind::Ref, t) => format!("&'static {}", self.ty(t)),
            Ty::Cow(t) => format!("Cow<'static, {}>", self.ty(t)),
            Ty::Map(a, b) => format!("BTreeMap<{}, {}>", self.ty(a), self.ty(b)),
            Ty::Set(t) => format!("BTreeSet<{}>", self.ty(t)),
            Ty::Heap(t) => format!("BinaryHeap<{}>", self.ty(t)),
            Ty::Range(t) => format!("Range<{}>", self.ty(t)),
            Ty::RangeIncl(t) => format!("RangeInclusive<{}>", self.ty(t)),
            Ty::NonZero(p) => format!("NonZero{}", p.name().to_uppercase()),
            Ty::Duration => "Duration".to_string(),
            Ty::Compact(t) if self.prog.name_style == 1 => format!("codec::Compact<{}>", self.ty(t)),
            Ty::Compact(t) => format!("Compact<{}>", self.ty(t)),
            Ty::BitVec(s, msb) => format!("BitVec<{}, {}>", s.name(), if *msb { "Msb0" } else { "Lsb0" }),
            Ty::BitVecP(a, b) => format!("BitVec<{}, {}>", self.ty_raw(a), self.ty_raw(b)),
            Ty::BitOrder(msb) => (if *msb { "Msb0" } else { "Lsb0" }).to_string(),
            Ty::Phantom(t) => format!("PhantomData<{}>", self.ty(t)),
        }
    }
}

impl Program {
    pub fn render_closed(&self, t: &Ty) -> String {
        Render {
            prog: self,
            params: &[],
        }
        .ty(t)
    }

    /// Rust-like text of the whole program (for samples and replay files)
    pub fn to_text(&self) -> String {
        let mut s = String::new();
        for (i, d) in self.defs.iter().enumerate() {
            let r = Render {
                prog: self,
                params: &d.params,
            };
            let _ = writeln!(s, "// def {i} at {}", d.path.join("::"));
            for l in &d.docs {
                let _ = writeln!(s, "///{l}");
            }
            let skipped: Vec<&str> = d
                .params
                .iter()
                .filter(|p| p.skipped)
                .map(|p| p.name.as_str())
                .collect();
            if !skipped.is_empty() {
                let _ = writeln!(s, "#[scale_info(skip_type_params({}))]", skipped.join(", "));
            }
            let generics = if d.params.is_empty() {
                String::new()
            } else {
                format!(
                    "<{}>",
                    d.params
                        .iter()
                        .map(|p| if p.config {
                            format!("{}: Config", p.name)
                        } else if p.compactable {
                            format!("{}: HasCompact", p.name)
                        } else if p.bitstore {
                            format!("{}: BitStore", p.name)
                        } else if p.bitorder {
                            format!("{}: BitOrder", p.name)
                        } else {
                            p.name.clone()
                        })
                        .collect::<Vec<_>>()
                        .join(", ")
                )
            };
            let fields = |f: &Fields, is_struct: bool| -> String {
                let one = |fd: &FieldDef| {
                    let mut o = String::new();
                    for l in &fd.docs {
                        let _ = write!(o, "#[doc = {l:?}] ");
                    }
                    if fd.compact_attr {
                        o.push_str("#[codec(compact)] ");
                    }
                    if let Some(n) = &fd.name {
                        let _ = write!(o, "{n}: ");
                    }
                    o.push_str(&r.ty(&fd.ty));
                    o
                };
                match f {
                    Fields::Unit => {
                        if is_struct {
                            ";".to_string()
                        } else {
                            String::new()
                        }
                    }
                    Fields::Named(fs) => {
                        format!(" {{ {} }}", fs.iter().map(one).collect::<Vec<_>>().join(", "))
                    }
                    Fields::Unnamed(fs) => format!(
                        "({}){}",
                        fs.iter().map(one).collect::<Vec<_>>().join(", "),
                        if is_struct { ";" } else { "" }
                    ),
                }
            };
            match &d.body {
                Body::Struct(f) => {
                    let _ = writeln!(s, "struct {}{}{}", d.name(), generics, fields(f, true));
                    if let Some(inner) = &d.config_inner {
                        let _ = writeln!(
                            s,
                            "impl Config for {} {{ type Inner = {}; }}",
                            d.name(),
                            r.ty(inner)
                        );
                    }
                }
                Body::Enum(vs) => {
                    let _ = writeln!(s, "enum {}{} {{", d.name(), generics);
                    for v in vs {
                        for l in &v.docs {
                            let _ = writeln!(s, "    ///{l}");
                        }
                        let _ = writeln!(
                            s,
                            "    #[codec(index = {})] {}{},",
                            v.index,
                            v.name,
                            fields(&v.fields, false)
                        );
                    }
                    let _ = writeln!(s, "}}");
                }
            }
        }
        let _ = writeln!(
            s,
            "// roots: {}",
            self.roots
                .iter()
                .map(|t| self.render_closed(t))
                .collect::<Vec<_>>()
                .join(" | ")
        );
        s
    }
}
