//! Source programs: sets of Rust struct/enum definitions plus root types (DESIGN.md 3.1).
//! A program is the ground truth a registry is lowered from.

use std::fmt::Write;

#[derive(Clone, Copy, Debug, PartialEq, Eq, PartialOrd, Ord, Hash)]
pub enum Prim {
    Bool,
    Char,
    Str,
    U8,
    U16,
    U32,
    U64,
    U128,
    U256,
    I8,
    I16,
    I32,
    I64,
    I128,
    I256,
}

impl Prim {
    pub const RUST: [Prim; 13] = [
        Prim::Bool,
        Prim::Char,
        Prim::Str,
        Prim::U8,
        Prim::U16,
        Prim::U32,
        Prim::U64,
        Prim::U128,
        Prim::I8,
        Prim::I16,
        Prim::I32,
        Prim::I64,
        Prim::I128,
    ];
    pub const UINTS: [Prim; 5] = [Prim::U8, Prim::U16, Prim::U32, Prim::U64, Prim::U128];
    pub fn name(&self) -> &'static str {
        match self {
            Prim::Bool => "bool",
            Prim::Char => "char",
            Prim::Str => "String",
            Prim::U8 => "u8",
            Prim::U16 => "u16",
            Prim::U32 => "u32",
            Prim::U64 => "u64",
            Prim::U128 => "u128",
            Prim::U256 => "u256",
            Prim::I8 => "i8",
            Prim::I16 => "i16",
            Prim::I32 => "i32",
            Prim::I64 => "i64",
            Prim::I128 => "i128",
            Prim::I256 => "i256",
        }
    }
    pub fn is_uint(&self) -> bool {
        matches!(
            self,
            Prim::U8 | Prim::U16 | Prim::U32 | Prim::U64 | Prim::U128
        )
    }
    pub fn is_int(&self) -> bool {
        !matches!(self, Prim::Bool | Prim::Char | Prim::Str)
    }
    /// byte width of fixed-width primitives
    pub fn width(&self) -> Option<usize> {
        Some(match self {
            Prim::Bool | Prim::U8 | Prim::I8 => 1,
            Prim::U16 | Prim::I16 => 2,
            Prim::U32 | Prim::I32 | Prim::Char => 4,
            Prim::U64 | Prim::I64 => 8,
            Prim::U128 | Prim::I128 => 16,
            Prim::U256 | Prim::I256 => 32,
            Prim::Str => return None,
        })
    }
}

#[derive(Clone, Copy, Debug, PartialEq, Eq, PartialOrd, Ord, Hash)]
pub enum SeqKind {
    Vec,
    VecDeque,
    Slice,
}

#[derive(Clone, Copy, Debug, PartialEq, Eq, PartialOrd, Ord, Hash)]
pub enum PtrKind {
    Box,
    Rc,
    Arc,
    Ref,
}

#[derive(Clone, Debug, PartialEq, Eq, PartialOrd, Ord, Hash)]
pub enum Ty {
    Param(usize),
    /// `T::Inner` for the parameter with that index (associated-type stratum)
    Assoc(usize),
    /// `Prim(Str)` is `String`
    Prim(Prim),
    /// the unsized `str` (only written under a pointer or `Cow`): `&'static str` is Ptr(Ref, StrSlice)
    StrSlice,
    Def(usize, Vec<Ty>),
    Tuple(Vec<Ty>),
    Array(u32, Box<Ty>),
    Seq(SeqKind, Box<Ty>),
    Opt(Box<Ty>),
    Res(Box<Ty>, Box<Ty>),
    Ptr(PtrKind, Box<Ty>),
    Cow(Box<Ty>),
    Map(Box<Ty>, Box<Ty>),
    Set(Box<Ty>),
    Heap(Box<Ty>),
    Range(Box<Ty>),
    RangeIncl(Box<Ty>),
    NonZero(Prim),
    Duration,
    Compact(Box<Ty>),
    /// store primitive, msb0?
    BitVec(Prim, bool),
    /// `BitVec<S, O>` whose store and/or order is a type parameter (closed form normalises to BitVec)
    BitVecP(Box<Ty>, Box<Ty>),
    /// bitvec::order::{Lsb0,Msb0} marker types (msb0?)
    BitOrder(bool),
    Phantom(Box<Ty>),
}

impl Ty {
    pub fn children(&self) -> Vec<&Ty> {
        match self {
            Ty::Param(_) | Ty::Assoc(_) | Ty::Prim(_) | Ty::StrSlice | Ty::NonZero(_) | Ty::Duration | Ty::BitVec(..) | Ty::BitOrder(_) => {
                vec![]
            }
            Ty::Def(_, a) | Ty::Tuple(a) => a.iter().collect(),
            Ty::Array(_, t)
            | Ty::Seq(_, t)
            | Ty::Opt(t)
            | Ty::Ptr(_, t)
            | Ty::Cow(t)
            | Ty::Set(t)
            | Ty::Heap(t)
            | Ty::Range(t)
            | Ty::RangeIncl(t)
            | Ty::Compact(t)
            | Ty::Phantom(t) => vec![t],
            Ty::Res(a, b) | Ty::Map(a, b) | Ty::BitVecP(a, b) => vec![a, b],
        }
    }
    pub fn any(&self, f: &mut dyn FnMut(&Ty) -> bool) -> bool {
        if f(self) {
            return true;
        }
        self.children().into_iter().any(|c| c.any(f))
    }
    pub fn mentions_param(&self) -> bool {
        self.any(&mut |t| matches!(t, Ty::Param(_) | Ty::Assoc(_)))
    }
    pub fn uses_param(&self, i: usize) -> bool {
        self.any(&mut |t| matches!(t, Ty::Param(j) if *j == i))
    }
    /// substitute parameters by closed arguments; `Assoc(i)` is resolved through `assoc`
    pub fn subst(&self, args: &[Ty], assoc: &dyn Fn(&Ty) -> Ty) -> Ty {
        let s = |t: &Ty| Box::new(t.subst(args, assoc));
        match self {
            Ty::Param(i) => args[*i].clone(),
            Ty::Assoc(i) => assoc(&args[*i]),
            Ty::Prim(_) | Ty::StrSlice | Ty::NonZero(_) | Ty::Duration | Ty::BitVec(..) | Ty::BitOrder(_) => self.clone(),
            Ty::Def(d, a) => Ty::Def(*d, a.iter().map(|t| t.subst(args, assoc)).collect()),
            Ty::Tuple(a) => Ty::Tuple(a.iter().map(|t| t.subst(args, assoc)).collect()),
            Ty::Array(n, t) => Ty::Array(*n, s(t)),
            Ty::Seq(k, t) => Ty::Seq(*k, s(t)),
            Ty::Opt(t) => Ty::Opt(s(t)),
            Ty::Res(a, b) => Ty::Res(s(a), s(b)),
            Ty::Ptr(k, t) => Ty::Ptr(*k, s(t)),
            Ty::Cow(t) => Ty::Cow(s(t)),
            Ty::Map(a, b) => Ty::Map(s(a), s(b)),
            Ty::Set(t) => Ty::Set(s(t)),
            Ty::Heap(t) => Ty::Heap(s(t)),
            Ty::Range(t) => Ty::Range(s(t)),
            Ty::RangeIncl(t) => Ty::RangeIncl(s(t)),
            Ty::Compact(t) => Ty::Compact(s(t)),
            Ty::Phantom(t) => Ty::Phantom(s(t)),
            Ty::BitVecP(a, b) => Ty::BitVecP(s(a), s(b)),
        }
    }
    /// the closed Rust type itself, with representation-only normalisation (a `BitVecP` whose
    /// store and order are closed is the same type as the `BitVec`)
    pub fn exact(&self) -> Ty {
        let n = |t: &Ty| Box::new(t.exact());
        match self {
            Ty::Param(_) | Ty::Assoc(_) | Ty::Prim(_) | Ty::StrSlice | Ty::NonZero(_) | Ty::Duration | Ty::BitVec(..) | Ty::BitOrder(_) => {
                self.clone()
            }
            Ty::Def(d, a) => Ty::Def(*d, a.iter().map(|t| t.exact()).collect()),
            Ty::Tuple(a) => Ty::Tuple(a.iter().map(|t| t.exact()).collect()),
            Ty::Array(k, t) => Ty::Array(*k, n(t)),
            Ty::Seq(k, t) => Ty::Seq(*k, n(t)),
            Ty::Ptr(k, t) => Ty::Ptr(*k, n(t)),
            Ty::Opt(t) => Ty::Opt(n(t)),
            Ty::Res(a, b) => Ty::Res(n(a), n(b)),
            Ty::Cow(t) => Ty::Cow(n(t)),
            Ty::Map(a, b) => Ty::Map(n(a), n(b)),
            Ty::Set(t) => Ty::Set(n(t)),
            Ty::Heap(t) => Ty::Heap(n(t)),
            Ty::Range(t) => Ty::Range(n(t)),
            Ty::RangeIncl(t) => Ty::RangeIncl(n(t)),
            Ty::Compact(t) => Ty::Compact(n(t)),
            Ty::Phantom(t) => Ty::Phantom(n(t)),
            Ty::BitVecP(a, b) => match (a.exact(), b.exact()) {
                (Ty::Prim(p), Ty::BitOrder(m)) => Ty::BitVec(p, m),
                (x, y) => Ty::BitVecP(Box::new(x), Box::new(y)),
            },
        }
    }
    /// The key scale-info interns a closed type under: `TypeId::of::<T::Identity>()`. `Identity` is
    /// applied ONCE, at the top: `Box<X>`/`Rc<X>`/`Arc<X>`/`&X` are keyed as the exact type `X`,
    /// `Vec<X>`/`VecDeque<X>` as `[X]`, `String` as `str`, every `PhantomData<_>` as one type;
    /// everything below the top is compared as the exact Rust type. Hence `Box<Vec<u8>>` (keyed
    /// `Vec<u8>`) and `Vec<u8>` (keyed `[u8]`) are two registry entries with the same content.
    pub fn key(&self) -> Ty {
        match self.exact() {
            Ty::Ptr(_, inner) => *inner,
            Ty::Seq(_, t) => Ty::Seq(SeqKind::Slice, t),
            Ty::Prim(Prim::Str) => Ty::StrSlice,
            Ty::Phantom(_) => Ty::Phantom(Box::new(Ty::Tuple(vec![]))),
            o => o,
        }
    }
    /// does wrapping this closed type in a transparent pointer give a different registry entry?
    pub fn identity_changes_under_pointer(&self) -> bool {
        self.key() != self.exact()
    }
    pub fn normalize(&self) -> Ty {
        self.key()
    }
}

#[derive(Clone, Debug, PartialEq, Eq)]
pub struct ParamDecl {
    pub name: String,
    pub skipped: bool,
    /// `T: Config` parameter: only used through `T::Inner`
    pub config: bool,
    /// `T: HasCompact` parameter: instantiated with unsigned integers (or wrappers of them) only,
    /// may be used as `#[codec(compact)] f: T` and `Compact<T>`
    pub compactable: bool,
    /// `S: BitStore` parameter (instantiated with u8/u16/u32/u64), used as `BitVec<S, _>`
    pub bitstore: bool,
    /// `O: BitOrder` parameter (instantiated with Lsb0/Msb0), used as `BitVec<_, O>`
    pub bitorder: bool,
}

#[derive(Clone, Debug, PartialEq, Eq)]
pub struct FieldDef {
    pub name: Option<String>,
    pub ty: Ty,
    /// `#[codec(compact)]`
    pub compact_attr: bool,
    pub docs: Vec<String>,
}

#[derive(Clone, Debug, PartialEq, Eq)]
pub enum Fields {
    Unit,
    Named(Vec<FieldDef>),
    Unnamed(Vec<FieldDef>),
}

impl Fields {
    pub fn list(&self) -> &[FieldDef] {
        match self {
            Fields::Unit => &[],
            Fields::Named(f) | Fields::Unnamed(f) => f,
        }
    }
    pub fn list_mut(&mut self) -> Option<&mut Vec<FieldDef>> {
        match self {
            Fields::Unit => None,
            Fields::Named(f) | Fields::Unnamed(f) => Some(f),
        }
    }
}

#[derive(Clone, Debug, PartialEq, Eq)]
pub struct VariantDef {
    pub name: String,
    pub index: u8,
    pub fields: Fields,
    pub docs: Vec<String>,
}

#[derive(Clone, Debug, PartialEq, Eq)]
pub enum Body {
    Struct(Fields),
    Enum(Vec<VariantDef>),
}

#[derive(Clone, Debug, PartialEq, Eq)]
pub struct Def {
    pub path: Vec<String>,
    pub params: Vec<ParamDecl>,
    pub docs: Vec<String>,
    pub body: Body,
    /// for "config" unit structs: the closed type of `<Self as Config>::Inner`
    pub config_inner: Option<Ty>,
}

impl Def {
    pub fn name(&self) -> &str {
        self.path.last().unwrap()
    }
    pub fn all_fields(&self) -> Vec<&FieldDef> {
        match &self.body {
            Body::Struct(f) => f.list().iter().collect(),
            Body::Enum(vs) => vs.iter().flat_map(|v| v.fields.list().iter()).collect(),
        }
    }
    pub fn n_live_params(&self) -> usize {
        self.params.iter().filter(|p| !p.skipped).count()
    }
}

#[derive(Clone, Debug, PartialEq, Eq, Default)]
pub struct Program {
    pub defs: Vec<Def>,
    pub roots: Vec<Ty>,
    /// how std/codec types are spelled in the source (and therefore in the recorded type names):
    /// 0 = imported names (`Compact<T>`, `Box<T>`), 1 = path-qualified (`codec::Compact<T>`,
    /// `alloc::boxed::Box<T>`, `sp_std::vec::Vec<T>`)
    pub name_style: u8,
}

// ---------------------------------------------------------------------------------------------
// rendering

pub struct Render<'a> {
    pub prog: &'a Program,
    /// parameter names of the enclosing definition
    pub params: &'a [ParamDecl],
    /// array lengths are written as the const generic parameter `N` (see `Program::render_for`)
    pub sym_arrays: bool,
}

impl<'a> Render<'a> {
    /// source text of a type as the derive macro would record it in `type_name`
    /// (normalised like scale-info's clean_type_string).
    pub fn ty(&self, t: &Ty) -> String {
        // scale-info's clean_type_string removes the space before `(` and `[`
        self.ty_raw(t).replace(" (", "(").replace(" [", "[")
    }
    fn ty_raw(&self, t: &Ty) -> String {
        let list = |v: &[Ty]| v.iter().map(|t| self.ty(t)).collect::<Vec<_>>().join(", ");
        match t {
            Ty::Param(i) => self.params[*i].name.clone(),
            Ty::Assoc(i) => format!("{}::Inner", self.params[*i].name),
            Ty::Prim(p) => p.name().to_string(),
            Ty::StrSlice => "str".to_string(),
            Ty::Def(d, a) => {
                let n = self.prog.defs[*d].name();
                if a.is_empty() {
                    n.to_string()
                } else {
                    format!("{}<{}>", n, list(a))
                }
            }
            Ty::Tuple(a) => {
                if a.len() == 1 {
                    format!("({},)", self.ty(&a[0]))
                } else {
                    format!("({})", list(a))
                }
            }
            Ty::Array(_, t) if self.sym_arrays => format!("[{}; N]", self.ty(t)),
            Ty::Array(n, t) => format!("[{}; {}]", self.ty(t), n),
            Ty::Seq(SeqKind::Vec, t) if self.prog.name_style & 1 != 0 => format!("sp_std::vec::Vec<{}>", self.ty(t)),
            Ty::Seq(SeqKind::Vec, t) => format!("Vec<{}>", self.ty(t)),
            Ty::Seq(SeqKind::VecDeque, t) => format!("VecDeque<{}>", self.ty(t)),
            Ty::Seq(SeqKind::Slice, t) => format!("[{}]", self.ty(t)),
            Ty::Opt(t) => format!("Option<{}>", self.ty(t)),
            Ty::Res(a, b) => format!("Result<{}, {}>", self.ty(a), self.ty(b)),
            Ty::Ptr(PtrKind::Box, t) if self.prog.name_style & 1 != 0 => format!("alloc::boxed::Box<{}>", self.ty(t)),
            Ty::Ptr(PtrKind::Box, t) => format!("Box<{}>", self.ty(t)),
            Ty::Ptr(PtrKind::Rc, t) => format!("Rc<{}>", self.ty(t)),
            Ty::Ptr(PtrKind::Arc, t) => format!("Arc<{}>", self.ty(t)),
            Ty::Ptr(PtrKind::Ref, t) => format!("&'static {}", self.ty(t)),
            Ty::Cow(t) => format!("Cow<'static, {}>", self.ty(t)),
            Ty::Map(a, b) => format!("BTreeMap<{}, {}>", self.ty(a), self.ty(b)),
            Ty::Set(t) => format!("BTreeSet<{}>", self.ty(t)),
            Ty::Heap(t) => format!("BinaryHeap<{}>", self.ty(t)),
            Ty::Range(t) => format!("Range<{}>", self.ty(t)),
            Ty::RangeIncl(t) => format!("RangeInclusive<{}>", self.ty(t)),
            Ty::NonZero(p) => format!("NonZero{}", p.name().to_uppercase()),
            Ty::Duration => "Duration".to_string(),
            Ty::Compact(t) if self.prog.name_style & 1 != 0 => format!("codec::Compact<{}>", self.ty(t)),
            Ty::Compact(t) => format!("Compact<{}>", self.ty(t)),
            Ty::BitVec(s, msb) => format!("BitVec<{}, {}>", s.name(), if *msb { "Msb0" } else { "Lsb0" }),
            Ty::BitVecP(a, b) => format!("BitVec<{}, {}>", self.ty_raw(a), self.ty_raw(b)),
            Ty::BitOrder(msb) => (if *msb { "Msb0" } else { "Lsb0" }).to_string(),
            Ty::Phantom(t) => format!("PhantomData<{}>", self.ty(t)),
        }
    }
}

impl Program {
    pub fn render_closed(&self, t: &Ty) -> String {
        Render {
            prog: self,
            params: &[],
            sym_arrays: false,
        }
        .ty(t)
    }

    /// The renderer of field type names inside definition `d`. With `name_style & 2` a definition whose
    /// fields contain exactly ONE array type is read as `struct D<.., const N: usize>` and the array as
    /// `[T; N]`: the derive records the type name as written, and const parameters are not type parameters,
    /// so two instantiations that differ in N are two entries with one path, equal parameters and equal
    /// type names that differ only in the array length.
    pub fn render_for<'a>(&'a self, d: &'a Def) -> Render<'a> {
        let mut arrays = 0;
        for f in d.all_fields() {
            f.ty.any(&mut |t| {
                if matches!(t, Ty::Array(..)) {
                    arrays += 1;
                }
                false
            });
        }
        Render {
            prog: self,
            params: &d.params,
            sym_arrays: self.name_style & 2 != 0 && arrays == 1,
        }
    }

    /// For every definition and parameter: can the argument influence the wire shape of an
    /// instantiation? (not skipped, and used somewhere outside PhantomData and outside argument
    /// positions that are themselves without influence)
    pub fn wire_used(&self) -> Vec<Vec<bool>> {
        let mut used: Vec<Vec<bool>> = self.defs.iter().map(|d| vec![false; d.params.len()]).collect();
        fn occurs(t: &Ty, i: usize, used: &Vec<Vec<bool>>) -> bool {
            match t {
                Ty::Param(j) | Ty::Assoc(j) => *j == i,
                Ty::Phantom(_) => false,
                Ty::Def(d, args) => args.iter().enumerate().any(|(k, a)| used[*d].get(k).copied().unwrap_or(false) && occurs(a, i, used)),
                other => other.children().into_iter().any(|c| occurs(c, i, used)),
            }
        }
        loop {
            let mut changed = false;
            for (d, def) in self.defs.iter().enumerate() {
                for i in 0..def.params.len() {
                    if used[d][i] || (def.params[i].skipped && !def.params[i].config) {
                        continue;
                    }
                    if def.all_fields().iter().any(|f| occurs(&f.ty, i, &used)) {
                        used[d][i] = true;
                        changed = true;
                    }
                }
            }
            if !changed {
                return used;
            }
        }
    }

    /// the definition as far as the registry's type graph records it: pointers, sequence kinds,
    /// PhantomData, parameter names, docs, the spelling of compact and arguments without influence erased
    pub fn erased_def(&self, d: usize, used: &Vec<Vec<bool>>) -> String {
        self.erased_def_with(d, used, &|x| self.defs[x].path.join("::"))
    }

    /// Classes of definitions with equal wire shape, references to other definitions compared by (path, class)
    /// coinductively (coarsest partition that is stable under `erased_def_with`): two copies of a definition whose
    /// references go to equal copies are in one class although they mention different definitions.
    pub fn shape_classes(&self) -> Vec<usize> {
        // every argument the registry records counts (an argument without influence on the bytes still is part of
        // the type expression the generator writes): all non-skipped parameters
        // (a skipped `T: Config` parameter still decides the shape through `T::Inner`)
        let used: Vec<Vec<bool>> = self.defs.iter().map(|d| d.params.iter().map(|p| !p.skipped || p.config).collect()).collect();
        let n = self.defs.len();
        let mut classes = vec![0usize; n];
        for _ in 0..=n {
            let keys: Vec<String> = (0..n)
                .map(|d| self.erased_def_with(d, &used, &|x| format!("{}#{}", self.defs[x].path.join("::"), classes[x])))
                .collect();
            let mut sorted: Vec<&String> = keys.iter().collect();
            sorted.sort();
            sorted.dedup();
            let next: Vec<usize> = keys.iter().map(|k| sorted.binary_search(&k).unwrap_or(0)).collect();
            // compare as partitions
            let same = (0..n).all(|a| (0..n).all(|b| (classes[a] == classes[b]) == (next[a] == next[b])));
            classes = next;
            if same {
                break;
            }
        }
        classes
    }

    pub fn erased_def_with(&self, d: usize, used: &Vec<Vec<bool>>, refname: &dyn Fn(usize) -> String) -> String {
        fn ty(p: &Program, t: &Ty, used: &Vec<Vec<bool>>, refname: &dyn Fn(usize) -> String) -> String {
            let l = |v: &[Ty]| v.iter().filter(|t| !matches!(t, Ty::Phantom(_))).map(|t| ty(p, t, used, refname)).collect::<Vec<_>>().join(",");
            match t {
                Ty::Param(i) => format!("${i}"),
                Ty::Assoc(i) => format!("${i}::Inner"),
                Ty::Prim(x) => x.name().to_string(),
                Ty::StrSlice => "String".into(),
                Ty::Def(d, a) => {
                    let args: Vec<String> = a.iter().enumerate().filter(|(k, _)| used[*d].get(*k).copied().unwrap_or(false)).map(|(_, t)| ty(p, t, used, refname)).collect();
                    format!("{}<{}>", refname(*d), args.join(","))
                }
                Ty::Tuple(a) => format!("({})", l(a)),
                Ty::Array(n, t) => format!("[{};{n}]", ty(p, t, used, refname)),
                Ty::Seq(_, t) => format!("Vec<{}>", ty(p, t, used, refname)),
                Ty::Opt(t) => format!("Option<{}>", ty(p, t, used, refname)),
                // `Result<X, X>`: both parameters of the prelude type get ONE id, and its fields carry no type name, so
                // the generator's parameter matching (by id) sees a different type than in `Result<X', X>` even when X'
                // and X differ in a skipped argument only
                Ty::Res(a, b) if a.exact() == b.exact() => format!("ResultOfOneType<{}>", ty(p, a, used, refname)),
                Ty::Res(a, b) => format!("Result<{},{}>", ty(p, a, used, refname), ty(p, b, used, refname)),
                Ty::Ptr(_, t) => ty(p, t, used, refname),
                Ty::Cow(t) => format!("Cow<{}>", ty(p, t, used, refname)),
                Ty::Map(a, b) => format!("Map<{},{}>", ty(p, a, used, refname), ty(p, b, used, refname)),
                Ty::Set(t) => format!("Set<{}>", ty(p, t, used, refname)),
                Ty::Heap(t) => format!("Heap<{}>", ty(p, t, used, refname)),
                Ty::Range(t) => format!("Range<{}>", ty(p, t, used, refname)),
                Ty::RangeIncl(t) => format!("RangeIncl<{}>", ty(p, t, used, refname)),
                Ty::NonZero(x) => format!("NonZero<{}>", x.name()),
                Ty::Duration => "Duration".into(),
                Ty::Compact(t) => format!("Compact<{}>", ty(p, t, used, refname)),
                Ty::BitVec(s, m) => format!("BitVec<{},{}>", s.name(), m),
                Ty::BitVecP(a, b) => format!("BitVec<{},{}>", ty(p, a, used, refname), ty(p, b, used, refname)),
                Ty::BitOrder(m) => format!("{m}"),
                Ty::Phantom(_) => String::new(),
            }
        }
        let def = &self.defs[d];
        let fields = |f: &Fields| -> String {
            f.list()
                .iter()
                .filter(|fd| !matches!(fd.ty, Ty::Phantom(_)))
                .map(|fd| {
                    let t = ty(self, &fd.ty, used, refname);
                    format!("{}:{}", fd.name.clone().unwrap_or_default(), if fd.compact_attr { format!("Compact<{t}>") } else { t })
                })
                .collect::<Vec<_>>()
                .join(";")
        };
        let live: Vec<usize> = (0..def.params.len()).filter(|i| !def.params[*i].skipped).collect();
        // named / unnamed / no field at all (a list of PhantomData fields only is no field at all)
        let form = |f: &Fields| -> &'static str {
            if f.list().iter().all(|fd| matches!(fd.ty, Ty::Phantom(_))) {
                "unit"
            } else if matches!(f, Fields::Named(_)) {
                "named"
            } else {
                "unnamed"
            }
        };
        match &def.body {
            Body::Struct(f) => format!("struct<{live:?}>{}{{{}}}", form(f), fields(f)),
            Body::Enum(vs) => format!(
                "enum<{live:?}>{{{}}}",
                vs.iter().map(|v| format!("{}={}{}{{{}}}", v.name, v.index, form(&v.fields), fields(&v.fields))).collect::<Vec<_>>().join("|")
            ),
        }
    }

    /// the source text of one definition (docs, attributes, spelling), without its index
    pub fn def_surface(&self, d: usize) -> String {
        let text = self.to_text();
        let chunk = text.split("// def ").nth(d + 1).unwrap_or("");
        let body = chunk.split_once('\n').map(|x| x.1).unwrap_or("");
        body.split("// roots:").next().unwrap_or("").to_string()
    }

    /// Pairs of definitions at one path that the registry's type graph cannot tell apart (equal after
    /// erasure) although their source differs (docs, Box placement, spelling, an argument without
    /// influence). A generator that keeps ONE item per path for them necessarily picks by registry order.
    pub fn same_shape_versions_with_different_surface(&self) -> Vec<(usize, usize)> {
        let used = self.wire_used();
        let mut out = vec![];
        for a in 0..self.defs.len() {
            for b in a + 1..self.defs.len() {
                if self.defs[a].path == self.defs[b].path
                    && self.erased_def(a, &used) == self.erased_def(b, &used)
                    && self.def_surface(a) != self.def_surface(b)
                {
                    out.push((a, b));
                }
            }
        }
        out
    }

    /// Rust-like text of the whole program (for samples and replay files)
    pub fn to_text(&self) -> String {
        let mut s = String::new();
        for (i, d) in self.defs.iter().enumerate() {
            let r = self.render_for(d);
            let _ = writeln!(s, "// def {i} at {}{}", d.path.join("::"), if r.sym_arrays { " (const N: usize)" } else { "" });
            for l in &d.docs {
                let _ = writeln!(s, "///{l}");
            }
            let skipped: Vec<&str> = d
                .params
                .iter()
                .filter(|p| p.skipped)
                .map(|p| p.name.as_str())
                .collect();
            if !skipped.is_empty() {
                let _ = writeln!(s, "#[scale_info(skip_type_params({}))]", skipped.join(", "));
            }
            let generics = if d.params.is_empty() {
                String::new()
            } else {
                format!(
                    "<{}>",
                    d.params
                        .iter()
                        .map(|p| if p.config {
                            format!("{}: Config", p.name)
                        } else if p.compactable {
                            format!("{}: HasCompact", p.name)
                        } else if p.bitstore {
                            format!("{}: BitStore", p.name)
                        } else if p.bitorder {
                            format!("{}: BitOrder", p.name)
                        } else {
                            p.name.clone()
                        })
                        .collect::<Vec<_>>()
                        .join(", ")
                )
            };
            let fields = |f: &Fields, is_struct: bool| -> String {
                let one = |fd: &FieldDef| {
                    let mut o = String::new();
                    for l in &fd.docs {
                        let _ = write!(o, "#[doc = {l:?}] ");
                    }
                    if fd.compact_attr {
                        o.push_str("#[codec(compact)] ");
                    }
                    if let Some(n) = &fd.name {
                        let _ = write!(o, "{n}: ");
                    }
                    o.push_str(&r.ty(&fd.ty));
                    o
                };
                match f {
                    Fields::Unit => {
                        if is_struct {
                            ";".to_string()
                        } else {
                            String::new()
                        }
                    }
                    Fields::Named(fs) => {
                        format!(" {{ {} }}", fs.iter().map(one).collect::<Vec<_>>().join(", "))
                    }
                    Fields::Unnamed(fs) => format!(
                        "({}){}",
                        fs.iter().map(one).collect::<Vec<_>>().join(", "),
                        if is_struct { ";" } else { "" }
                    ),
                }
            };
            match &d.body {
                Body::Struct(f) => {
                    let _ = writeln!(s, "struct {}{}{}", d.name(), generics, fields(f, true));
                    if let Some(inner) = &d.config_inner {
                        let _ = writeln!(
                            s,
                            "impl Config for {} {{ type Inner = {}; }}",
                            d.name(),
                            r.ty(inner)
                        );
                    }
                }
                Body::Enum(vs) => {
                    let _ = writeln!(s, "enum {}{} {{", d.name(), generics);
                    for v in vs {
                        for l in &v.docs {
                            let _ = writeln!(s, "    ///{l}");
                        }
                        let _ = writeln!(
                            s,
                            "    #[codec(index = {})] {}{},",
                            v.index,
                            v.name,
                            fields(&v.fields, false)
                        );
                    }
                    let _ = writeln!(s, "}}");
                }
            }
        }
        let _ = writeln!(
            s,
            "// roots: {}",
            self.roots
                .iter()
                .map(|t| self.render_closed(t))
                .collect::<Vec<_>>()
                .join(" | ")
        );
        s
    }
}
