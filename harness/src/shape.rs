//! SCALE shape bisimulation between a registry type id and a generated Rust type
//! (DESIGN.md 4.2): the registry side is read from the type defs, the generated side by
//! interpreting the emitted items.

use crate::genmod::*;
use crate::lower::def_prim;
use crate::program::Prim;
use crate::settings::SettingsSpec;
use scale_info::{form::PortableForm, Field, PortableRegistry, TypeDef};
use std::collections::{BTreeMap, BTreeSet};

pub struct ShapeCtx<'a> {
    pub reg: &'a PortableRegistry,
    pub gm: &'a GMod,
    pub alloc: String,
    pub compact: Option<String>,
    pub bits: Option<String>,
    /// substitute target paths without generics (nospace token strings)
    pub opaque: Vec<String>,
    visited: BTreeSet<(u32, String, bool)>,
    pub nodes_compared: u64,
}

type RFields = Vec<(Option<String>, u32)>;

enum RNode {
    Prim(Prim),
    Compact(u32),
    Seq(u32),
    Array(u32, u32),
    Tuple(Vec<u32>),
    Struct(RFields),
    Enum(Vec<(String, u8, RFields)>),
    Bits(Prim, bool),
}

#[derive(Clone)]
struct GChild {
    ty: syn::Type,
    compact: bool,
}

type GFieldsS = Vec<(Option<String>, GChild)>;

enum GNode {
    Prim(Prim),
    Compact(syn::Type),
    Seq(syn::Type),
    Array(u64, syn::Type),
    Tuple(Vec<syn::Type>),
    Struct(GFieldsS),
    Enum(Vec<(String, u64, GFieldsS)>),
    Bits(Prim, bool),
    Opaque,
}

fn path_string(p: &syn::Path) -> String {
    let mut s = String::new();
    if p.leading_colon.is_some() {
        s.push_str("::");
    }
    s.push_str(&path_idents(p).join("::"));
    s
}

fn strip_generics(s: &str) -> String {
    // "::a::b::C<X,Y>" -> "::a::b::C"
    match s.find('<') {
        Some(i) => s[..i].to_string(),
        None => s.to_string(),
    }
}

pub fn is_phantom(t: &syn::Type) -> bool {
    if let syn::Type::Path(tp) = t {
        return path_string(&tp.path) == "::core::marker::PhantomData";
    }
    false
}

fn prim_from_name(n: &str) -> Option<Prim> {
    Some(match n {
        "bool" => Prim::Bool,
        "char" => Prim::Char,
        "u8" => Prim::U8,
        "u16" => Prim::U16,
        "u32" => Prim::U32,
        "u64" => Prim::U64,
        "u128" => Prim::U128,
        "i8" => Prim::I8,
        "i16" => Prim::I16,
        "i32" => Prim::I32,
        "i64" => Prim::I64,
        "i128" => Prim::I128,
        _ => return None,
    })
}

impl<'a> ShapeCtx<'a> {
    pub fn new(reg: &'a PortableRegistry, gm: &'a GMod, spec: &SettingsSpec) -> Self {
        ShapeCtx {
            reg,
            gm,
            alloc: nospace(spec.alloc.as_deref().unwrap_or("::std")),
            compact: spec.compact_path.as_ref().map(|s| nospace(s)),
            bits: spec.bits_path.as_ref().map(|s| nospace(s)),
            opaque: spec
                .substitutes
                .iter()
                .map(|(_, t)| strip_generics(&nospace(t)))
                .collect(),
            visited: BTreeSet::new(),
            nodes_compared: 0,
        }
    }

    fn rfields(&self, fs: &[Field<PortableForm>]) -> RFields {
        fs.iter().map(|f| (f.name.clone(), f.ty.id)).collect()
    }

    /// registry side: transparent prelude `Cow` is replaced by its parameter
    fn rnode(&self, id: u32) -> Result<RNode, String> {
        let mut id = id;
        let mut guard = 0;
        loop {
            let ty = self
                .reg
                .resolve(id)
                .ok_or_else(|| format!("registry has no type {id}"))?;
            if ty.path.segments.len() == 1 && ty.path.segments[0] == "Cow" {
                let inner = ty
                    .type_params
                    .first()
                    .and_then(|p| p.ty)
                    .ok_or("prelude Cow without parameter")?;
                id = inner.id;
                guard += 1;
                if guard > 64 {
                    return Err("Cow chain".into());
                }
                continue;
            }
            return Ok(match &ty.type_def {
                TypeDef::Primitive(p) => RNode::Prim(def_prim(p)),
                TypeDef::Compact(c) => RNode::Compact(c.type_param.id),
                TypeDef::Sequence(s) => RNode::Seq(s.type_param.id),
                TypeDef::Array(a) => RNode::Array(a.len, a.type_param.id),
                TypeDef::Tuple(t) => RNode::Tuple(t.fields.iter().map(|f| f.id).collect()),
                TypeDef::Composite(c) => RNode::Struct(self.rfields(&c.fields)),
                TypeDef::Variant(v) => RNode::Enum(
                    v.variants
                        .iter()
                        .map(|v| (v.name.clone(), v.index, self.rfields(&v.fields)))
                        .collect(),
                ),
                TypeDef::BitSequence(b) => {
                    let store = match self.reg.resolve(b.bit_store_type.id).map(|t| &t.type_def) {
                        Some(TypeDef::Primitive(p)) => def_prim(p),
                        _ => return Err("bit store is not a primitive".into()),
                    };
                    let order = self
                        .reg
                        .resolve(b.bit_order_type.id)
                        .and_then(|t| t.path.segments.last().cloned())
                        .ok_or("bit order type without path")?;
                    let msb = match order.as_str() {
                        "Lsb0" => false,
                        "Msb0" => true,
                        o => return Err(format!("unknown bit order {o}")),
                    };
                    RNode::Bits(store, msb)
                }
            });
        }
    }

    fn gfields(&self, f: &GFields, env: &BTreeMap<String, syn::Type>) -> GFieldsS {
        f.list()
            .iter()
            .filter(|f| !(f.skip || is_phantom(&f.ty)))
            .map(|f| {
                (
                    f.name.clone(),
                    GChild {
                        ty: subst_type(&f.ty, env),
                        compact: f.compact,
                    },
                )
            })
            .collect()
    }

    fn gnode(&self, t: &syn::Type) -> Result<GNode, String> {
        use syn::Type as T;
        match t {
            T::Paren(p) => self.gnode(&p.elem),
            T::Group(p) => self.gnode(&p.elem),
            T::Tuple(tt) => Ok(GNode::Tuple(tt.elems.iter().cloned().collect())),
            T::Array(a) => {
                let len = match &a.len {
                    syn::Expr::Lit(syn::ExprLit {
                        lit: syn::Lit::Int(i),
                        ..
                    }) => i.base10_parse::<u64>().map_err(|e| e.to_string())?,
                    other => return Err(format!("array length {}", tokens_nospace(other))),
                };
                Ok(GNode::Array(len, (*a.elem).clone()))
            }
            T::Path(tp) => {
                if tp.qself.is_some() {
                    return Err("qualified self path".into());
                }
                let ps = path_string(&tp.path);
                let args = last_args(&tp.path)?;
                let idents = path_idents(&tp.path);
                let arity = |n: usize| -> Result<(), String> {
                    if args.len() == n {
                        Ok(())
                    } else {
                        Err(format!("{ps} applied to {} arguments, expects {n}", args.len()))
                    }
                };
                // generated item?
                if tp.path.leading_colon.is_none() && idents.first() == Some(&self.gm.root) {
                    let item = self
                        .gm
                        .items
                        .get(&idents)
                        .ok_or_else(|| format!("path {ps} does not resolve to an emitted item"))?;
                    if item.generics.len() != args.len() {
                        return Err(format!(
                            "{ps} applied to {} generic arguments but the item declares {}",
                            args.len(),
                            item.generics.len()
                        ));
                    }
                    let env: BTreeMap<String, syn::Type> = item
                        .generics
                        .iter()
                        .cloned()
                        .zip(args.iter().cloned())
                        .collect();
                    return Ok(match &item.kind {
                        GKind::Struct(f) => GNode::Struct(self.gfields(f, &env)),
                        GKind::Enum(vs) => {
                            let mut out = vec![];
                            for (pos, v) in vs.iter().enumerate() {
                                // the marker variant carries no shape
                                if v.name == "__Ignore"
                                    && v.fields.list().len() == 1
                                    && is_phantom(&v.fields.list()[0].ty)
                                {
                                    continue;
                                }
                                out.push((
                                    v.name.clone(),
                                    v.index.unwrap_or(pos as u64),
                                    self.gfields(&v.fields, &env),
                                ));
                            }
                            GNode::Enum(out)
                        }
                    });
                }
                if self.opaque.iter().any(|o| *o == ps) {
                    return Ok(GNode::Opaque);
                }
                if let Some(c) = &self.compact {
                    if *c == ps {
                        arity(1)?;
                        return Ok(GNode::Compact(args[0].clone()));
                    }
                }
                if let Some(b) = &self.bits {
                    if *b == ps {
                        arity(2)?;
                        let store = match self.gnode(&args[0])? {
                            GNode::Prim(p) if p.is_uint() => p,
                            _ => return Err("bit store argument is not an unsigned primitive".into()),
                        };
                        let msb = match &args[1] {
                            T::Path(o) => match o.path.segments.last().map(|s| s.ident.to_string()).as_deref()
                            {
                                Some("Lsb0") => false,
                                Some("Msb0") => true,
                                other => return Err(format!("bit order argument {other:?}")),
                            },
                            _ => return Err("bit order argument is not a path".into()),
                        };
                        return Ok(GNode::Bits(store, msb));
                    }
                }
                if let Some(rest) = ps.strip_prefix("::core::primitive::") {
                    arity(0)?;
                    return prim_from_name(rest)
                        .map(GNode::Prim)
                        .ok_or_else(|| format!("unknown primitive {ps}"));
                }
                let alloc = &self.alloc;
                let a1 = |i: usize| args[i].clone();
                let unnamed1 = |t: syn::Type| {
                    GNode::Struct(vec![(
                        None,
                        GChild {
                            ty: t,
                            compact: false,
                        },
                    )])
                };
                let plain = |t: syn::Type| GChild {
                    ty: t,
                    compact: false,
                };
                if ps == format!("{alloc}::string::String") {
                    arity(0)?;
                    return Ok(GNode::Prim(Prim::Str));
                }
                if ps == format!("{alloc}::vec::Vec") {
                    arity(1)?;
                    return Ok(GNode::Seq(a1(0)));
                }
                if ps == format!("{alloc}::boxed::Box") {
                    arity(1)?;
                    return self.gnode(&args[0]);
                }
                if ps == format!("{alloc}::collections::BTreeMap") {
                    arity(2)?;
                    let tup: syn::Type = syn::parse_quote!((#(#args),*));
                    return Ok(GNode::Struct(vec![(
                        None,
                        plain(self.vec_of(&tup)),
                    )]));
                }
                if ps == format!("{alloc}::collections::BTreeSet")
                    || ps == format!("{alloc}::collections::BinaryHeap")
                {
                    arity(1)?;
                    return Ok(unnamed1(self.vec_of(&args[0])));
                }
                match ps.as_str() {
                    "::core::option::Option" => {
                        arity(1)?;
                        return Ok(GNode::Enum(vec![
                            ("None".into(), 0, vec![]),
                            ("Some".into(), 1, vec![(None, plain(a1(0)))]),
                        ]));
                    }
                    "::core::result::Result" => {
                        arity(2)?;
                        return Ok(GNode::Enum(vec![
                            ("Ok".into(), 0, vec![(None, plain(a1(0)))]),
                            ("Err".into(), 1, vec![(None, plain(a1(1)))]),
                        ]));
                    }
                    "::core::ops::Range" | "::core::ops::RangeInclusive" => {
                        arity(1)?;
                        return Ok(GNode::Struct(vec![
                            (Some("start".into()), plain(a1(0))),
                            (Some("end".into()), plain(a1(0))),
                        ]));
                    }
                    "::core::time::Duration" => {
                        arity(0)?;
                        return Ok(GNode::Struct(vec![
                            (None, plain(syn::parse_quote!(::core::primitive::u64))),
                            (None, plain(syn::parse_quote!(::core::primitive::u32))),
                        ]));
                    }
                    _ => {}
                }
                if let Some(rest) = ps.strip_prefix("::core::num::NonZero") {
                    arity(0)?;
                    let p = prim_from_name(&rest.to_lowercase())
                        .filter(|p| p.is_int())
                        .ok_or_else(|| format!("unknown NonZero type {ps}"))?;
                    let inner: syn::Type =
                        syn::parse_str(&format!("::core::primitive::{}", p.name())).unwrap();
                    return Ok(unnamed1(inner));
                }
                if tp.path.leading_colon.is_none() && idents.len() == 1 && args.is_empty() {
                    return Err(format!("unbound generic parameter or unknown name `{ps}`"));
                }
                Err(format!("unknown external path {ps}"))
            }
            other => Err(format!("unexpected type syntax {}", tokens_nospace(other))),
        }
    }

    fn vec_of(&self, t: &syn::Type) -> syn::Type {
        let p: syn::Path = syn::parse_str(&format!("{}::vec::Vec", self.alloc)).unwrap();
        syn::parse_quote!(#p<#t>)
    }

    fn cmp_fields(&mut self, r: &RFields, g: &GFieldsS, at: &str) -> Result<(), String> {
        if r.len() != g.len() {
            return Err(format!(
                "{at}: registry has {} fields, generated type has {}",
                r.len(),
                g.len()
            ));
        }
        for (i, ((rn, rid), (gn, gc))) in r.iter().zip(g.iter()).enumerate() {
            if rn != gn {
                return Err(format!("{at}: field {i} is named {rn:?} in the registry, {gn:?} in the generated type"));
            }
            self.bisim_child(*rid, gc, &format!("{at}.{}", rn.clone().unwrap_or(i.to_string())))?;
        }
        Ok(())
    }

    /// a field of a generated composite: `#[codec(compact)] f: X` stands for `Compact<X>`
    pub fn bisim_field(&mut self, rid: u32, ty: &syn::Type, compact: bool, at: &str) -> Result<(), String> {
        self.bisim_child(
            rid,
            &GChild {
                ty: ty.clone(),
                compact,
            },
            at,
        )
    }

    fn bisim_child(&mut self, rid: u32, gc: &GChild, at: &str) -> Result<(), String> {
        if gc.compact {
            // #[codec(compact)] f: X  <->  registry Compact(X)
            match self.rnode(rid)? {
                RNode::Compact(inner) => self.bisim(inner, &gc.ty, at),
                _ => Err(format!("{at}: generated field is #[codec(compact)] but registry type {rid} is not Compact")),
            }
        } else {
            self.bisim(rid, &gc.ty, at)
        }
    }

    /// coinductive equality of the registry shape of `rid` and the shape of the closed generated
    /// type `g`.
    pub fn bisim(&mut self, rid: u32, g: &syn::Type, at: &str) -> Result<(), String> {
        let key = (rid, tokens_nospace(g), false);
        if !self.visited.insert(key) {
            return Ok(());
        }
        self.nodes_compared += 1;
        let r = self.rnode(rid)?;
        let gn = self.gnode(g).map_err(|e| format!("{at}: {e}"))?;
        match (r, gn) {
            (_, GNode::Opaque) => Ok(()),
            (RNode::Prim(a), GNode::Prim(b)) => {
                if a == b {
                    Ok(())
                } else {
                    Err(format!("{at}: registry primitive {} vs generated {}", a.name(), b.name()))
                }
            }
            (RNode::Compact(a), GNode::Compact(b)) => self.bisim(a, &b, &format!("{at}<compact>")),
            (RNode::Seq(a), GNode::Seq(b)) => self.bisim(a, &b, &format!("{at}[]")),
            (RNode::Array(n, a), GNode::Array(m, b)) => {
                if n as u64 != m {
                    return Err(format!("{at}: array length {n} vs {m}"));
                }
                self.bisim(a, &b, &format!("{at}[;]"))
            }
            (RNode::Tuple(a), GNode::Tuple(b)) => {
                if a.len() != b.len() {
                    return Err(format!("{at}: tuple arity {} vs {}", a.len(), b.len()));
                }
                for (i, (x, y)) in a.iter().zip(b.iter()).enumerate() {
                    self.bisim(*x, y, &format!("{at}.{i}"))?;
                }
                Ok(())
            }
            (RNode::Struct(a), GNode::Struct(b)) => self.cmp_fields(&a, &b, at),
            (RNode::Enum(a), GNode::Enum(b)) => {
                if a.len() != b.len() {
                    return Err(format!("{at}: {} variants in the registry, {} generated", a.len(), b.len()));
                }
                for (name, idx, fs) in &a {
                    let Some((gname, _, gfs)) = b.iter().find(|v| v.1 == *idx as u64) else {
                        return Err(format!("{at}: no generated variant with index {idx} ({name})"));
                    };
                    if gname != name {
                        return Err(format!("{at}: variant index {idx} is {name} in the registry, {gname} generated"));
                    }
                    self.cmp_fields(fs, gfs, &format!("{at}::{name}"))?;
                }
                Ok(())
            }
            (RNode::Bits(s, o), GNode::Bits(s2, o2)) => {
                if s == s2 && o == o2 {
                    Ok(())
                } else {
                    Err(format!("{at}: bit sequence store/order differ: registry ({},{}) generated ({},{})", s.name(), if o {"Msb0"} else {"Lsb0"}, s2.name(), if o2 {"Msb0"} else {"Lsb0"}))
                }
            }
            (r, g) => Err(format!(
                "{at}: registry {} vs generated {}",
                rkind(&r),
                gkind(&g)
            )),
        }
    }
}

fn rkind(r: &RNode) -> &'static str {
    match r {
        RNode::Prim(_) => "primitive",
        RNode::Compact(_) => "compact",
        RNode::Seq(_) => "sequence",
        RNode::Array(..) => "array",
        RNode::Tuple(_) => "tuple",
        RNode::Struct(_) => "struct",
        RNode::Enum(_) => "enum",
        RNode::Bits(..) => "bit sequence",
    }
}
fn gkind(r: &GNode) -> &'static str {
    match r {
        GNode::Prim(_) => "primitive",
        GNode::Compact(_) => "compact",
        GNode::Seq(_) => "sequence",
        GNode::Array(..) => "array",
        GNode::Tuple(_) => "tuple",
        GNode::Struct(_) => "struct",
        GNode::Enum(_) => "enum",
        GNode::Bits(..) => "bit sequence",
        GNode::Opaque => "opaque substitute",
    }
}
