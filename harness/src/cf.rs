//! Coincidence-freeness (DESIGN.md 3.4) of the instantiations of a lowered program.

use crate::lower::{assoc_resolver, Lowered};
use crate::program::*;
use std::collections::BTreeSet;

#[derive(Clone, Debug, Default)]
pub struct CfReport {
    /// one entry per `Lowered::insts`, same order
    pub inst_cf: Vec<bool>,
    pub all_cf: bool,
    pub reasons: Vec<String>,
}

fn id_of(low: &Lowered, t: &Ty) -> Option<u32> {
    low.id_of.get(&t.normalize()).copied()
}

/// walk the registry-visible non-parameter sub-expressions of a *source* type expression
fn walk(
    prog: &Program,
    low: &Lowered,
    params: &[ParamDecl],
    t: &Ty,
    args: &[Ty],
    arg_ids: &BTreeSet<u32>,
    bad: &mut Vec<String>,
) {
    let assoc = assoc_resolver(prog);
    match t {
        // a skipped parameter is not a parameter as far as the registry is concerned
        Ty::Param(i) if !params[*i].skipped => return,
        Ty::Phantom(_) => return,
        _ => {}
    }
    let closed = t.subst(args, &assoc);
    if let Ty::Ptr(_, inner) = t {
        // a transparent pointer is keyed as its exact pointee (one level of `Identity`): the entry
        // has the content of the pointee but, when the pointee's own key differs from its exact
        // type (Vec, String, another pointer), not its id.
        if let Ty::Param(i) = &**inner {
            if !params[*i].skipped && args[*i].identity_changes_under_pointer() {
                bad.push(format!(
                    "CF3: parameter {} under a transparent pointer is instantiated with {}, whose entry under a pointer is not the argument's entry",
                    params[*i].name,
                    prog.render_closed(&args[*i])
                ));
            }
            return;
        }
        if let Some(id) = id_of(low, &closed) {
            if arg_ids.contains(&id) {
                bad.push(format!(
                    "CF2: sub-expression {} has the id of an argument",
                    prog.render_closed(&closed)
                ));
            }
        }
        // the structure below is that of the pointee
        let mut s: &Ty = inner;
        while let Ty::Ptr(_, i) = s {
            s = i;
        }
        return walk_below(prog, low, params, s, args, arg_ids, bad);
    }
    if let Some(id) = id_of(low, &closed) {
        if arg_ids.contains(&id) {
            bad.push(format!(
                "CF2: sub-expression {} has the id of an argument",
                prog.render_closed(&closed)
            ));
        }
    }
    walk_below(prog, low, params, t, args, arg_ids, bad)
}

/// the registry-visible children of the entry of `t` (`t` itself already checked)
fn walk_below(
    prog: &Program,
    low: &Lowered,
    params: &[ParamDecl],
    t: &Ty,
    args: &[Ty],
    arg_ids: &BTreeSet<u32>,
    bad: &mut Vec<String>,
) {
    let assoc = assoc_resolver(prog);
    match t {
        Ty::Param(i) if !params[*i].skipped => {
            // `Box<Box<T>>` is keyed as the exact type `Box<T>`: an entry with the content of the
            // argument's entry but never its id
            let _ = i;
            bad.push("CF3: parameter under nested transparent pointers".into());
        }
        Ty::Assoc(_) | Ty::Param(_) => {
            // the resolved type is a non-parameter expression all the way down
            let closed = t.subst(args, &assoc);
            walk_closed(prog, low, &closed, arg_ids, bad);
        }
        Ty::Def(d, a) => {
            for (p, x) in prog.defs[*d].params.iter().zip(a.iter()) {
                if !p.skipped {
                    walk(prog, low, params, x, args, arg_ids, bad);
                }
            }
        }
        Ty::BitVec(store, msb) => {
            for c in [Ty::Prim(*store), Ty::BitOrder(*msb)] {
                if let Some(id) = id_of(low, &c) {
                    if arg_ids.contains(&id) {
                        bad.push("CF2: bit store/order type has the id of an argument".into());
                    }
                }
            }
        }
        other => {
            for c in other.children() {
                walk(prog, low, params, c, args, arg_ids, bad);
            }
        }
    }
}

fn walk_closed(prog: &Program, low: &Lowered, t: &Ty, arg_ids: &BTreeSet<u32>, bad: &mut Vec<String>) {
    match t {
        Ty::Ptr(_, inner) => {
            // the entry of a pointer has the children of its pointee
            let mut s: &Ty = inner;
            while let Ty::Ptr(_, i) = s {
                s = i;
            }
            walk_closed(prog, low, s, arg_ids, bad);
        }
        Ty::Def(d, a) => {
            for (p, x) in prog.defs[*d].params.iter().zip(a.iter()) {
                if !p.skipped {
                    if let Some(id) = id_of(low, x) {
                        if arg_ids.contains(&id) {
                            bad.push("CF2: inside associated type".into());
                        }
                    }
                    walk_closed(prog, low, x, arg_ids, bad);
                }
            }
        }
        Ty::BitVec(store, msb) => {
            for c in [Ty::Prim(*store), Ty::BitOrder(*msb)] {
                if let Some(id) = id_of(low, &c) {
                    if arg_ids.contains(&id) {
                        bad.push("CF2: inside associated type (bits)".into());
                    }
                }
            }
        }
        other => {
            for c in other.children() {
                if let Some(id) = id_of(low, c) {
                    if arg_ids.contains(&id) {
                        bad.push("CF2: inside associated type".into());
                    }
                }
                walk_closed(prog, low, c, arg_ids, bad);
            }
        }
    }
}

fn ptr_chain_over_param(t: &Ty) -> bool {
    match t {
        Ty::Ptr(_, inner) => matches!(**inner, Ty::Param(_)) || ptr_chain_over_param(inner),
        _ => false,
    }
}

pub fn analyse(prog: &Program, low: &Lowered) -> CfReport {
    let mut rep = CfReport {
        all_cf: true,
        ..Default::default()
    };
    for inst in &low.insts {
        let def = &prog.defs[inst.def];
        let mut bad = vec![];
        // CF1
        let mut ids = BTreeSet::new();
        for (p, a) in def.params.iter().zip(inst.args.iter()) {
            if p.skipped {
                continue;
            }
            match id_of(low, a) {
                Some(id) => {
                    if !ids.insert(id) {
                        bad.push("CF1: two arguments share one id".to_string());
                    }
                }
                None => bad.push("argument not interned".into()),
            }
        }
        // CF2 / CF3
        for f in def.all_fields() {
            if matches!(f.ty, Ty::Phantom(_)) {
                continue;
            }
            if ptr_chain_over_param(&f.ty) {
                bad.push("CF3: parameter directly under a transparent pointer".into());
            }
            if f.compact_attr {
                let assoc = assoc_resolver(prog);
                let closed = Ty::Compact(Box::new(f.ty.subst(&inst.args, &assoc)));
                if let Some(id) = id_of(low, &closed) {
                    if ids.contains(&id) {
                        bad.push("CF2: compact wrapper has the id of an argument".into());
                    }
                }
            }
            walk(prog, low, &def.params, &f.ty, &inst.args, &ids, &mut bad);
        }
        let ok = bad.is_empty();
        rep.inst_cf.push(ok);
        if !ok {
            rep.all_cf = false;
            for b in bad {
                rep.reasons.push(format!(
                    "{}: {}",
                    prog.render_closed(&Ty::Def(inst.def, inst.args.clone())),
                    b
                ));
            }
        }
    }
    rep
}
