//! Engine shared by all checks: strata, workers, proptest driving + shrinking, evidence,
//! known findings, replay.

use crate::tape::{hash_str, hex, mix, unhex};
use proptest::strategy::{Strategy, ValueTree};
use proptest::test_runner::{Config, RngAlgorithm, TestRng, TestRunner};
use serde_json::{json, Value};
use std::collections::{BTreeMap, BTreeSet};
use std::panic::{catch_unwind, AssertUnwindSafe};
use std::path::{Path, PathBuf};
use std::sync::Mutex;
use std::time::Instant;

#[derive(Clone, Copy, Debug, PartialEq, Eq)]
pub enum Tier {
    Quick,
    Thorough,
}

impl Tier {
    pub fn name(&self) -> &'static str {
        match self {
            Tier::Quick => "quick",
            Tier::Thorough => "thorough",
        }
    }
    pub fn pick<T>(&self, q: T, t: T) -> T {
        match self {
            Tier::Quick => q,
            Tier::Thorough => t,
        }
    }
}

#[derive(Default, Debug, Clone)]
pub struct Stats {
    pub evaluations: u64,
    pub nontrivial: BTreeSet<u64>,
    /// non-trivial cases that are distinct by construction (exhaustive strata enumerate each case once)
    pub nontrivial_by_construction: u64,
    pub labels: BTreeMap<String, u64>,
    pub samples: BTreeMap<String, Vec<Value>>,
    pub counters: BTreeMap<String, u64>,
    pub tolerated_known: BTreeMap<String, u64>,
    /// when true nothing is recorded (used while proptest shrinks a failure)
    pub frozen: bool,
}

impl Stats {
    pub fn label(&mut self, l: &str) {
        if self.frozen {
            return;
        }
        *self.labels.entry(l.to_string()).or_insert(0) += 1;
    }
    pub fn count(&mut self, key: &str, n: u64) {
        if self.frozen {
            return;
        }
        *self.counters.entry(key.to_string()).or_insert(0) += n;
    }
    pub fn nontrivial(&mut self, h: u64) {
        if self.frozen {
            return;
        }
        self.nontrivial.insert(h);
    }
    pub fn nontrivial_distinct_by_construction(&mut self) {
        if self.frozen {
            return;
        }
        self.nontrivial_by_construction += 1;
    }
    pub fn distinct_nontrivial(&self) -> u64 {
        self.nontrivial.len() as u64 + self.nontrivial_by_construction
    }
    pub fn wants_sample(&self, label: &str) -> bool {
        !self.frozen && self.samples.get(label).map(|v| v.len()).unwrap_or(0) < 1
    }
    pub fn sample(&mut self, label: &str, f: impl FnOnce() -> Value) {
        if self.wants_sample(label) {
            let v = f();
            self.samples.entry(label.to_string()).or_default().push(v);
        }
    }
    pub fn merge(&mut self, o: Stats) {
        self.evaluations += o.evaluations;
        self.nontrivial.extend(o.nontrivial);
        self.nontrivial_by_construction += o.nontrivial_by_construction;
        for (k, v) in o.labels {
            *self.labels.entry(k).or_insert(0) += v;
        }
        for (k, v) in o.counters {
            *self.counters.entry(k).or_insert(0) += v;
        }
        for (k, v) in o.tolerated_known {
            *self.tolerated_known.entry(k).or_insert(0) += v;
        }
        for (k, v) in o.samples {
            let e = self.samples.entry(k).or_default();
            for s in v {
                if e.len() < 1 {
                    e.push(s);
                }
            }
        }
    }
}

#[derive(Debug, Clone)]
pub struct Failure {
    pub msg: String,
    /// classifier signature (root cause, narrow). "unclassified" if none applies.
    pub signature: String,
    /// the decoded case in library independent form
    pub decoded: Value,
    /// true if the failure is a defect of the harness/generator (exit 2), not of the code under test
    pub infra: bool,
}

impl Failure {
    pub fn new(msg: impl Into<String>) -> Self {
        Failure {
            msg: msg.into(),
            signature: "unclassified".into(),
            decoded: Value::Null,
            infra: false,
        }
    }
    pub fn sig(mut self, s: impl Into<String>) -> Self {
        self.signature = s.into();
        self
    }
    pub fn with(mut self, v: Value) -> Self {
        self.decoded = v;
        self
    }
    pub fn infra(msg: impl Into<String>) -> Self {
        Failure {
            msg: msg.into(),
            signature: "infra".into(),
            decoded: Value::Null,
            infra: true,
        }
    }
}

#[derive(Clone, Debug)]
pub enum Kind {
    Random { cases: u64, max_len: usize },
    Exhaustive { total: u64 },
}

#[derive(Clone, Debug)]
pub struct Stratum {
    pub name: String,
    pub kind: Kind,
}

impl Stratum {
    pub fn random(name: &str, cases: u64, max_len: usize) -> Self {
        Stratum {
            name: name.into(),
            kind: Kind::Random { cases, max_len },
        }
    }
    pub fn exhaustive(name: &str, total: u64) -> Self {
        Stratum {
            name: name.into(),
            kind: Kind::Exhaustive { total },
        }
    }
}

#[derive(Clone, Copy, Debug)]
pub enum Input<'a> {
    Tape(&'a [u8]),
    Index(u64),
}

pub struct Probe {
    pub signature: &'static str,
    pub what: &'static str,
    pub run: Box<dyn Fn() -> Result<(), Failure> + Send + Sync>,
}

pub trait Property: Sync + Send {
    fn id(&self) -> &'static str;
    fn level(&self) -> &'static str {
        "exploration"
    }
    fn rule(&self) -> String;
    fn assumptions(&self) -> Vec<String> {
        vec![]
    }
    fn strata(&self, tier: Tier) -> Vec<Stratum>;
    fn eval(&self, stratum: &str, input: Input, stats: &mut Stats) -> Result<(), Failure>;
    /// fixed constructed cases, one per known/fixed finding
    fn probes(&self) -> Vec<Probe> {
        vec![]
    }
    /// soundness self-check of the generators; Err => exit 2
    fn self_check(&self) -> Result<(), String> {
        Ok(())
    }
    /// extra work after the strata (e.g. rustc tier, fresh processes). Returns failures.
    /// called once before anything else with the run's seed
    fn init(&self, _tier: Tier, _seed: u64) {}
    /// Properties whose statement includes termination: a single case that runs longer than this
    /// many seconds makes the process stop with exit code 86; the driver then re-runs that case
    /// alone, twice, with a larger budget, and reports non-termination only if both re-runs hang.
    fn case_deadline_s(&self) -> Option<u64> {
        None
    }
    fn extra(&self, _tier: Tier, _seed: u64, _stats: &mut Stats) -> Result<(), Failure> {
        Ok(())
    }
}

// ---------------------------------------------------------------------------------------------
// panic capture

thread_local! {
    static LAST_PANIC: std::cell::RefCell<Option<String>> = const { std::cell::RefCell::new(None) };
}

pub fn install_panic_hook() {
    std::panic::set_hook(Box::new(|info| {
        let loc = info
            .location()
            .map(|l| format!("{}:{}", l.file(), l.line()))
            .unwrap_or_default();
        let msg = if let Some(s) = info.payload().downcast_ref::<&str>() {
            s.to_string()
        } else if let Some(s) = info.payload().downcast_ref::<String>() {
            s.clone()
        } else {
            "<non-string panic>".to_string()
        };
        LAST_PANIC.with(|p| *p.borrow_mut() = Some(format!("{msg} @ {loc}")));
    }));
}

/// Run code under test; a panic becomes `Err(message @ location)`.
pub fn guard<T>(f: impl FnOnce() -> T) -> Result<T, String> {
    match catch_unwind(AssertUnwindSafe(f)) {
        Ok(v) => Ok(v),
        Err(_) => Err(LAST_PANIC
            .with(|p| p.borrow_mut().take())
            .unwrap_or_else(|| "panic".into())),
    }
}

// ---------------------------------------------------------------------------------------------
// known findings

#[derive(Debug, Clone)]
pub struct Finding {
    pub property: String,
    pub signature: String,
    pub status: String, // "known" | "fixed"
    pub what: String,
    pub commit: Option<String>,
}

pub fn verif_dir() -> PathBuf {
    if let Ok(d) = std::env::var("VERIF_DIR") {
        return PathBuf::from(d);
    }
    PathBuf::from("/verif")
}

pub fn load_findings() -> Vec<Finding> {
    let p = verif_dir().join("known_findings.json");
    let Ok(s) = std::fs::read_to_string(&p) else {
        return vec![];
    };
    let v: Value = serde_json::from_str(&s).expect("known_findings.json must be valid JSON");
    v["findings"]
        .as_array()
        .cloned()
        .unwrap_or_default()
        .into_iter()
        .map(|f| Finding {
            property: f["property"].as_str().unwrap_or("").to_string(),
            signature: f["signature"].as_str().unwrap_or("").to_string(),
            status: f["status"].as_str().unwrap_or("").to_string(),
            what: f["what"].as_str().unwrap_or("").to_string(),
            commit: f["commit"].as_str().map(|s| s.to_string()),
        })
        .collect()
}

// ---------------------------------------------------------------------------------------------

pub struct RunReport {
    pub violations: Vec<(String, PathBuf)>,
    pub known_lines: Vec<String>,
    pub infra: Vec<String>,
}

fn eval_wrapped(
    prop: &dyn Property,
    stratum: &str,
    input: Input,
    stats: &mut Stats,
    known: &BTreeSet<String>,
) -> Result<(), Failure> {
    let w = WORKER.with(|w| w.get());
    write_inflight(prop.id(), stratum, w, &input);
    CASE_CLOCK[w % CASE_CLOCK.len()].store(now_ms().max(1), std::sync::atomic::Ordering::Relaxed);
    let r = catch_unwind(AssertUnwindSafe(|| prop.eval(stratum, input, stats)));
    CASE_CLOCK[w % CASE_CLOCK.len()].store(0, std::sync::atomic::Ordering::Relaxed);
    let r = match r {
        Ok(r) => r,
        Err(_) => {
            let m = LAST_PANIC
                .with(|p| p.borrow_mut().take())
                .unwrap_or_else(|| "panic".into());
            Err(Failure::infra(format!("harness panic: {m}")))
        }
    };
    match r {
        Ok(()) => Ok(()),
        Err(f) => {
            if !f.infra && known.contains(&f.signature) {
                if !stats.frozen {
                    *stats.tolerated_known.entry(f.signature.clone()).or_insert(0) += 1;
                }
                Ok(())
            } else {
                Err(f)
            }
        }
    }
}

// per worker: start time (ms since process start) of the case being evaluated, 0 = idle
static CASE_CLOCK: [std::sync::atomic::AtomicU64; 64] = [const { std::sync::atomic::AtomicU64::new(0) }; 64];
static PROCESS_START: std::sync::OnceLock<Instant> = std::sync::OnceLock::new();
fn now_ms() -> u64 {
    PROCESS_START.get_or_init(Instant::now).elapsed().as_millis() as u64
}
thread_local! {
    static WORKER: std::cell::Cell<usize> = const { std::cell::Cell::new(63) };
}

/// watches the workers of a property that claims termination (see `Property::case_deadline_s`)
fn spawn_deadline_monitor(prop_id: &'static str, deadline_s: u64) {
    let _ = now_ms();
    std::thread::spawn(move || loop {
        std::thread::sleep(std::time::Duration::from_millis(500));
        let now = now_ms();
        for (w, c) in CASE_CLOCK.iter().enumerate() {
            let started = c.load(std::sync::atomic::Ordering::Relaxed);
            if started != 0 && now.saturating_sub(started) > deadline_s * 1000 {
                let src = verif_dir().join("work").join(format!("inflight-{prop_id}-{w}.json"));
                let dst = verif_dir().join("work").join(format!("hang-{prop_id}.json"));
                let _ = std::fs::copy(&src, &dst);
                println!(
                    "HANG property={prop_id} worker={w}: one case has been running for more than {deadline_s}s; recorded in {}",
                    dst.display()
                );
                use std::io::Write;
                let _ = std::io::stdout().flush();
                std::process::exit(86);
            }
        }
    });
}

// Record the case a worker is about to evaluate, so that the driver can re-run it in a fresh
// process if this one dies on a signal (stack overflow / abort) or hangs.
thread_local! {
    static INFLIGHT_FILE: std::cell::RefCell<Option<(String, std::fs::File)>> = const { std::cell::RefCell::new(None) };
}

fn write_inflight(prop: &str, stratum: &str, worker: usize, input: &Input) {
    use std::os::unix::fs::FileExt;
    let body = match input {
        Input::Tape(t) => format!(
            "{{\"property\":\"{prop}\",\"stratum\":\"{stratum}\",\"tape\":\"{}\",\"message\":\"in flight when the process died\",\"signature\":\"crash\"}}",
            hex(t)
        ),
        Input::Index(i) => format!(
            "{{\"property\":\"{prop}\",\"stratum\":\"{stratum}\",\"index\":{i},\"message\":\"in flight when the process died\",\"signature\":\"crash\"}}"
        ),
    };
    let name = format!("inflight-{prop}-{worker}.json");
    INFLIGHT_FILE.with(|f| {
        let mut f = f.borrow_mut();
        if f.as_ref().map(|(n, _)| n != &name).unwrap_or(true) {
            let path = verif_dir().join("work").join(&name);
            *f = std::fs::File::create(path).ok().map(|file| (name.clone(), file));
        }
        if let Some((_, file)) = f.as_ref() {
            let _ = file.write_all_at(body.as_bytes(), 0);
            let _ = file.set_len(body.len() as u64);
        }
    });
}

fn clear_inflight(prop: &str) {
    let dir = verif_dir().join("work");
    let _ = std::fs::create_dir_all(&dir);
    if let Ok(rd) = std::fs::read_dir(&dir) {
        for e in rd.flatten() {
            if e.file_name().to_string_lossy().starts_with(&format!("inflight-{prop}-")) {
                let _ = std::fs::remove_file(e.path());
            }
        }
    }
}

fn write_replay(prop: &str, stratum: &str, input: &Input, f: &Failure) -> PathBuf {
    let dir = verif_dir().join("replays");
    let _ = std::fs::create_dir_all(&dir);
    let (key, body) = match input {
        Input::Tape(t) => (hex(t), json!({"tape": hex(t)})),
        Input::Index(i) => (format!("idx{i}"), json!({"index": i})),
    };
    let h = hash_str(&format!("{prop}/{stratum}/{key}"));
    let path = dir.join(format!("{prop}-{:016x}.json", h));
    let mut v = json!({
        "property": prop,
        "stratum": stratum,
        "message": f.msg,
        "signature": f.signature,
        "decoded": f.decoded,
    });
    for (k, val) in body.as_object().unwrap() {
        v[k] = val.clone();
    }
    let _ = std::fs::write(&path, serde_json::to_string_pretty(&v).unwrap());
    path
}

pub fn run_replay(prop: &dyn Property, file: &Path) -> i32 {
    let s = match std::fs::read_to_string(file) {
        Ok(s) => s,
        Err(e) => {
            eprintln!("cannot read replay file: {e}");
            return 2;
        }
    };
    let v: Value = serde_json::from_str(&s).expect("replay json");
    let stratum = v["stratum"].as_str().unwrap_or("").to_string();
    if let Some(name) = stratum.strip_prefix("probe:") {
        for probe in prop.probes() {
            if probe.signature == name {
                return match catch_unwind(AssertUnwindSafe(|| (probe.run)())) {
                    Ok(Ok(())) => {
                        println!("replay: probe {name} passes");
                        0
                    }
                    Ok(Err(f)) if !f.infra => {
                        println!("replay: {} [{}]", f.msg, f.signature);
                        println!("VIOLATION property={} replay={}", prop.id(), file.display());
                        1
                    }
                    _ => 2,
                };
            }
        }
        eprintln!("replay: no probe named {name}");
        return 2;
    }
    let mut stats = Stats::default();
    let tape;
    let input = if let Some(t) = v["tape"].as_str() {
        tape = unhex(t).expect("hex tape");
        Input::Tape(&tape)
    } else {
        Input::Index(v["index"].as_u64().expect("index"))
    };
    let known = BTreeSet::new(); // strict mode: nothing tolerated
    match eval_wrapped(prop, &stratum, input, &mut stats, &known) {
        Ok(()) => {
            println!("replay: property held on {}", file.display());
            0
        }
        Err(f) if f.infra => {
            eprintln!("replay: infrastructure failure: {}", f.msg);
            2
        }
        Err(f) => {
            println!("replay: {} [{}]", f.msg, f.signature);
            println!("VIOLATION property={} replay={}", prop.id(), file.display());
            1
        }
    }
}

pub fn n_workers() -> usize {
    std::env::var("VERIF_WORKERS")
        .ok()
        .and_then(|s| s.parse().ok())
        .unwrap_or_else(|| {
            std::thread::available_parallelism()
                .map(|n| n.get())
                .unwrap_or(8)
                .min(16)
        })
}

struct StratumResult {
    stats: Stats,
    /// (worker, input-key, failure, input)
    failures: Vec<(usize, Failure, OwnedInput)>,
}

#[derive(Clone, Debug)]
enum OwnedInput {
    Tape(Vec<u8>),
    Index(u64),
}
impl OwnedInput {
    fn as_input(&self) -> Input<'_> {
        match self {
            OwnedInput::Tape(t) => Input::Tape(t),
            OwnedInput::Index(i) => Input::Index(*i),
        }
    }
}

fn run_stratum(
    prop: &dyn Property,
    st: &Stratum,
    seed: u64,
    known: &BTreeSet<String>,
) -> StratumResult {
    let workers = n_workers();
    let results: Mutex<Vec<(usize, Stats, Option<(Failure, OwnedInput)>)>> = Mutex::new(vec![]);
    std::thread::scope(|scope| {
        for w in 0..workers {
            let results = &results;
            let st = st.clone();
            std::thread::Builder::new()
                .stack_size(512 << 20)
                .spawn_scoped(scope, move || {
                    WORKER.with(|c| c.set(w));
                    let mut stats = Stats::default();
                    let mut failure = None;
                    match st.kind {
                        Kind::Random { cases, max_len } => {
                            // VERIF_BUDGET_DIV: developer knob to shrink random budgets for experiments
                            let div = std::env::var("VERIF_BUDGET_DIV").ok().and_then(|s| s.parse::<u64>().ok()).unwrap_or(1).max(1);
                            let cases = (cases / div).max(1);
                            let my = cases / workers as u64
                                + if (w as u64) < cases % workers as u64 { 1 } else { 0 };
                            if my > 0 {
                                let s = mix(&[seed, hash_str(prop.id()), hash_str(&st.name), w as u64]);
                                let mut sb = [0u8; 32];
                                for i in 0..4 {
                                    sb[i * 8..i * 8 + 8]
                                        .copy_from_slice(&mix(&[s, i as u64]).to_le_bytes());
                                }
                                let rng = TestRng::from_seed(RngAlgorithm::ChaCha, &sb);
                                let config = Config {
                                    cases: my as u32,
                                    max_shrink_iters: 2048,
                                    failure_persistence: None,
                                    ..Config::default()
                                };
                                let mut runner = TestRunner::new_with_rng(config, rng);
                                let strat = proptest::collection::vec(
                                    proptest::arbitrary::any::<u8>(),
                                    0..=max_len,
                                );
                                // manual loop so that stats stop at the first failure and we own
                                // the shrinking.
                                let mut failed: Option<(Failure, Vec<u8>)> = None;
                                for _ in 0..my {
                                    let mut tree = match strat.new_tree(&mut runner) {
                                        Ok(t) => t,
                                        Err(_) => break,
                                    };
                                    let tape = tree.current();
                                    stats.evaluations += 1;
                                    if let Err(f) = eval_wrapped(
                                        prop,
                                        &st.name,
                                        Input::Tape(&tape),
                                        &mut stats,
                                        known,
                                    ) {
                                        // shrink
                                        stats.frozen = true;
                                        let mut best = (f, tape);
                                        if !best.0.infra {
                                            let mut iters = 0;
                                            let want_sig = best.0.signature.clone();
                                            if tree.simplify() {
                                                loop {
                                                    iters += 1;
                                                    if iters > 3000 {
                                                        break;
                                                    }
                                                    let cand = tree.current();
                                                    let still = match eval_wrapped(
                                                        prop,
                                                        &st.name,
                                                        Input::Tape(&cand),
                                                        &mut stats,
                                                        known,
                                                    ) {
                                                        Err(f2)
                                                            if !f2.infra
                                                                && f2.signature == want_sig =>
                                                        {
                                                            best = (f2, cand);
                                                            true
                                                        }
                                                        _ => false,
                                                    };
                                                    if still {
                                                        if !tree.simplify() {
                                                            break;
                                                        }
                                                    } else if !tree.complicate() {
                                                        break;
                                                    }
                                                }
                                            }
                                        }
                                        failed = Some(best);
                                        break;
                                    }
                                }
                                if let Some((f, t)) = failed {
                                    failure = Some((f, OwnedInput::Tape(t)));
                                }
                            }
                        }
                        Kind::Exhaustive { total } => {
                            // contiguous chunks, interleaved by blocks so that workers are balanced
                            let block = (total / (workers as u64 * 4)).clamp(1, 4096);
                            let mut start = w as u64 * block;
                            'outer: while start < total {
                                let end = (start + block).min(total);
                                for i in start..end {
                                    if total <= 200_000 {
                                    }
                                    stats.evaluations += 1;
                                    if let Err(f) = eval_wrapped(
                                        prop,
                                        &st.name,
                                        Input::Index(i),
                                        &mut stats,
                                        known,
                                    ) {
                                        failure = Some((f, OwnedInput::Index(i)));
                                        break 'outer;
                                    }
                                }
                                start += block * workers as u64;
                            }
                        }
                    }
                    stats.frozen = false;
                    results.lock().unwrap().push((w, stats, failure));
                })
                .expect("spawn worker");
        }
    });
    let mut rs = results.into_inner().unwrap();
    rs.sort_by_key(|r| r.0);
    let mut stats = Stats::default();
    let mut failures = vec![];
    for (w, s, f) in rs {
        stats.merge(s);
        if let Some((f, inp)) = f {
            failures.push((w, f, inp));
        }
    }
    StratumResult { stats, failures }
}

pub fn run_property(prop: &dyn Property, tier: Tier, seed: u64) -> i32 {
    std::env::set_var("VERIF_TIER", tier.name());
    let t0 = Instant::now();
    let findings = load_findings();
    let mine: Vec<&Finding> = findings.iter().filter(|f| f.property == prop.id()).collect();
    let known: BTreeSet<String> = mine
        .iter()
        .filter(|f| f.status == "known")
        .map(|f| f.signature.clone())
        .collect();
    let mut report = RunReport {
        violations: vec![],
        known_lines: vec![],
        infra: vec![],
    };

    prop.init(tier, seed);
    clear_inflight(prop.id());
    let _ = std::fs::remove_file(verif_dir().join("work").join(format!("hang-{}.json", prop.id())));
    if let Some(d) = prop.case_deadline_s() {
        spawn_deadline_monitor(prop.id(), d);
    }
    if let Err(e) = prop.self_check() {
        eprintln!("generator self-check failed: {e}");
        return 2;
    }

    let mut total = Stats::default();
    let mut strata_json = vec![];

    // 1. probes for known / fixed findings
    for probe in prop.probes() {
        let entry = mine.iter().find(|f| f.signature == probe.signature);
        let r = match catch_unwind(AssertUnwindSafe(|| (probe.run)())) {
            Ok(r) => r,
            Err(_) => Err(Failure::infra(format!(
                "harness panic in probe {}: {}",
                probe.signature,
                LAST_PANIC
                    .with(|p| p.borrow_mut().take())
                    .unwrap_or_default()
            ))),
        };
        total.count("probes_run", 1);
        match (r, entry) {
            (Ok(()), Some(e)) if e.status == "known" => {
                println!(
                    "note: known finding {} no longer reproduces on its probe",
                    e.signature
                );
            }
            (Ok(()), _) => {}
            (Err(f), _) if f.infra => report.infra.push(f.msg),
            (Err(f), Some(e)) if e.status == "known" && f.signature == e.signature => {
                report.known_lines.push(format!(
                    "KNOWN-FINDING: property={} {} [{}]",
                    prop.id(),
                    e.what,
                    e.signature
                ));
                total.count("known_findings_reproduced", 1);
            }
            (Err(f), _) => {
                // fixed entry that fails again, unlisted probe failure or different signature
                let path = write_probe_replay(prop.id(), probe.signature, &f);
                println!("probe {} failed: {} [{}]", probe.signature, f.msg, f.signature);
                report.violations.push((f.msg.clone(), path));
            }
        }
    }

    // 2. regress corpus
    let regress_dir = verif_dir().join("regress");
    if let Ok(rd) = std::fs::read_dir(&regress_dir) {
        let mut files: Vec<PathBuf> = rd
            .filter_map(|e| e.ok().map(|e| e.path()))
            .filter(|p| {
                p.file_name()
                    .and_then(|n| n.to_str())
                    .map(|n| n.starts_with(&format!("{}-", prop.id())) && n.ends_with(".json"))
                    .unwrap_or(false)
            })
            .collect();
        files.sort();
        for file in files {
            let Ok(s) = std::fs::read_to_string(&file) else {
                continue;
            };
            let Ok(v) = serde_json::from_str::<Value>(&s) else {
                continue;
            };
            let stratum = v["stratum"].as_str().unwrap_or("").to_string();
            let tape;
            let input = if let Some(t) = v["tape"].as_str() {
                tape = unhex(t).unwrap_or_default();
                Input::Tape(&tape)
            } else {
                Input::Index(v["index"].as_u64().unwrap_or(0))
            };
            total.count("regress_cases", 1);
            let mut st = Stats::default();
            if let Err(f) = eval_wrapped(prop, &stratum, input, &mut st, &known) {
                if f.infra {
                    report.infra.push(f.msg);
                } else {
                    println!("regress case {} failed: {}", file.display(), f.msg);
                    report.violations.push((f.msg, file.clone()));
                }
            }
        }
    }

    // 3. strata
    let mut all_exhaustive = true;
    for st in prop.strata(tier) {
        let ts = Instant::now();
        let res = run_stratum(prop, &st, seed, &known);
        let ex = matches!(st.kind, Kind::Exhaustive { .. });
        all_exhaustive &= ex;
        strata_json.push(json!({
            "name": st.name,
            "kind": if ex {"exhaustive"} else {"random"},
            "budget": match st.kind { Kind::Random{cases,..} => cases, Kind::Exhaustive{total} => total },
            "evaluations": res.stats.evaluations,
            "exhaustive": ex && res.failures.is_empty(),
            "wall_s": ts.elapsed().as_secs_f64(),
        }));
        total.merge(res.stats);
        // deterministic: report the failure of the lowest worker only (others are counted)
        let nfail = res.failures.len();
        if let Some((w, f, inp)) = res.failures.into_iter().next() {
            if f.infra {
                report.infra.push(format!("[{} w{}] {}", st.name, w, f.msg));
            } else {
                let path = write_replay(prop.id(), &st.name, &inp.as_input(), &f);
                println!(
                    "stratum {}: {} worker(s) failed; first: {} [{}]",
                    st.name, nfail, f.msg, f.signature
                );
                report.violations.push((f.msg, path));
            }
        }
    }

    // 4. extra work
    if report.violations.is_empty() && report.infra.is_empty() {
        match catch_unwind(AssertUnwindSafe(|| prop.extra(tier, seed, &mut total))) {
            Ok(Ok(())) => {}
            Ok(Err(f)) if f.infra => report.infra.push(f.msg),
            Ok(Err(f)) => {
                if known.contains(&f.signature) {
                    *total.tolerated_known.entry(f.signature.clone()).or_insert(0) += 1;
                } else {
                    let path = write_probe_replay(prop.id(), "extra", &f);
                    println!("extra stage failed: {} [{}]", f.msg, f.signature);
                    report.violations.push((f.msg, path));
                }
            }
            Err(_) => report.infra.push(format!(
                "harness panic in extra stage: {}",
                LAST_PANIC
                    .with(|p| p.borrow_mut().take())
                    .unwrap_or_default()
            )),
        }
    }

    // 5. evidence
    let wall = t0.elapsed().as_secs_f64();
    let mut samples: Vec<Value> = vec![];
    for (label, vs) in &total.samples {
        for v in vs {
            if samples.len() < 24 {
                samples.push(json!({"label": label, "case": v}));
            }
        }
    }
    if samples.is_empty() {
        samples.push(json!({"note": "no sample recorded"}));
    }
    let evidence = json!({
        "property_id": prop.id(),
        "tier": tier.name(),
        "seed": seed,
        "level": prop.level(),
        "coverage": {
            "evaluations": total.evaluations,
            "distinct_nontrivial": total.distinct_nontrivial(),
            "rule": prop.rule(),
            "samples": samples,
            "exhaustive": all_exhaustive,
            "strata": strata_json,
            "labels": total.labels,
            "counters": total.counters,
            "excluded_or_tolerated_known": total.tolerated_known,
            "workers": n_workers(),
        },
        "assumptions": prop.assumptions(),
        "wall_s": wall,
        "violations": report.violations.len(),
    });
    let evdir = verif_dir().join("evidence");
    let _ = std::fs::create_dir_all(&evdir);
    let evpath = evdir.join(format!("{}.json", prop.id()));
    std::fs::write(&evpath, serde_json::to_string_pretty(&evidence).unwrap())
        .expect("write evidence");

    for l in &report.known_lines {
        println!("{l}");
    }
    println!(
        "{} {}: evaluations={} distinct_nontrivial={} tolerated_known={:?} wall={:.1}s",
        prop.id(),
        tier.name(),
        total.evaluations,
        total.distinct_nontrivial(),
        total.tolerated_known,
        wall
    );
    clear_inflight(prop.id());
    if !report.infra.is_empty() {
        for m in &report.infra {
            eprintln!("INFRA: {m}");
        }
        return 2;
    }
    if !report.violations.is_empty() {
        for (_m, p) in &report.violations {
            println!("VIOLATION property={} replay={}", prop.id(), p.display());
        }
        return 1;
    }
    0
}

fn write_probe_replay(prop: &str, name: &str, f: &Failure) -> PathBuf {
    let dir = verif_dir().join("replays");
    let _ = std::fs::create_dir_all(&dir);
    let path = dir.join(format!("{prop}-probe-{}.json", name.replace([':', '/'], "_")));
    let v = json!({
        "property": prop,
        "stratum": format!("probe:{name}"),
        "message": f.msg,
        "signature": f.signature,
        "decoded": f.decoded,
    });
    let _ = std::fs::write(&path, serde_json::to_string_pretty(&v).unwrap());
    path
}
