//! C04 Path de-duplication contract: minimal, sufficient, stable, idempotent.

use crate::case::*;
use crate::engine::*;
use crate::gen::GenOpts;
use crate::lower::{permute_registry, registry_json, Lowered};
use crate::program::Program;
use crate::props::c01::gen_perm;
use crate::props::c03::{collision_prone, families};
use crate::settings::SettingsSpec;
use crate::tape::{hash_str, Tape};
use scale_info::PortableRegistry;
use scale_typegen::utils::ensure_unique_type_paths;
use serde_json::{json, Value};
use std::collections::BTreeMap;

pub struct C04;

fn fail(sig: &str, msg: String, decoded: &dyn Fn() -> Value) -> Failure {
    Failure::new(msg).sig(sig).with(decoded())
}

/// Ground truth about "instantiations of one definition": old registry id -> definition key.
/// Two ids with equal keys are instantiations of one (textually identical) definition.
pub type DefKeys = BTreeMap<u32, String>;

pub fn def_keys(prog: &Program, low: &Lowered, cf_ok: &[bool], perm: Option<&[u32]>) -> DefKeys {
    let classes = prog.shape_classes();
    let mut m = BTreeMap::new();
    for (k, inst) in low.insts.iter().enumerate() {
        if !cf_ok[k] {
            continue;
        }
        let d = &prog.defs[inst.def];
        // associated-type definitions are not plain generics: their instantiations may differ in shape
        if d.params.iter().any(|p| p.config) {
            continue;
        }
        // identity of the definition as the registry's type graph sees it: path, parameter list and wire-shape
        // class (two versions with identical text count as one, and so do two copies whose references go to equal
        // copies - they differ in the ids their fields point to, in nothing else)
        let key = format!("{:?}|{:?}|shape-class {}", d.path, d.params, classes[inst.def]);
        let id = perm.map(|p| p[inst.id as usize]).unwrap_or(inst.id);
        m.insert(id, key);
    }
    m
}

/// The contract. `keys`: ground truth for the "instantiations stay together" clause (may be empty).
pub fn dedup_contract(
    before: &PortableRegistry,
    keys: &DefKeys,
    spec: &SettingsSpec,
    stats: &mut Stats,
    decoded: &dyn Fn() -> Value,
) -> Result<bool, Failure> {
    let mut after = before.clone();
    match guard(|| ensure_unique_type_paths(&mut after)) {
        Err(p) => return Err(fail("dedup:panic", format!("ensure_unique_type_paths panicked: {p}"), decoded)),
        Ok(Err(e)) => {
            return Err(fail(
                "dedup:error",
                format!("ensure_unique_type_paths failed on a registry with consistent ids: {e}"),
                decoded,
            ))
        }
        Ok(Ok(())) => {}
    }
    if after.types.len() != before.types.len() {
        return Err(fail("dedup:frame", "number of entries changed".into(), decoded));
    }
    // frame condition: everything but the last path segment is untouched
    let mut renamed: BTreeMap<Vec<String>, Vec<(u32, String)>> = BTreeMap::new();
    for (b, a) in before.types.iter().zip(after.types.iter()) {
        if b.id != a.id {
            return Err(fail("dedup:frame", format!("id of entry {} changed to {}", b.id, a.id), decoded));
        }
        if b.ty.type_def != a.ty.type_def || b.ty.type_params != a.ty.type_params || b.ty.docs != a.ty.docs {
            return Err(fail("dedup:frame", format!("definition/params/docs of entry {} changed", b.id), decoded));
        }
        let (bp, ap) = (&b.ty.path.segments, &a.ty.path.segments);
        if bp.len() != ap.len() {
            return Err(fail("dedup:frame", format!("path length of entry {} changed", b.id), decoded));
        }
        if bp.is_empty() {
            continue;
        }
        let n = bp.len() - 1;
        if bp[..n] != ap[..n] {
            return Err(fail(
                "dedup:frame",
                format!("namespace of entry {} changed: {bp:?} -> {ap:?}", b.id),
                decoded,
            ));
        }
        if bp[n] != ap[n] {
            if bp.len() < 2 {
                return Err(fail("dedup:frame", format!("prelude path {bp:?} renamed"), decoded));
            }
        }
        if bp.len() >= 2 {
            renamed.entry(bp.clone()).or_default().push((b.id, ap[n].clone()));
        }
    }
    // per original path: groups by new name
    let mut any_renamed = false;
    for (path, members) in &renamed {
        let old = path.last().unwrap();
        let changed: Vec<&(u32, String)> = members.iter().filter(|m| m.1 != *old).collect();
        if changed.is_empty() {
            continue;
        }
        any_renamed = true;
        // renaming happens only if the path carried >= 2 groups, and then every member is renamed
        if changed.len() != members.len() {
            return Err(fail(
                "dedup:partial-rename",
                format!("only some of the entries at {path:?} were renamed: {members:?}"),
                decoded,
            ));
        }
        // new name = old name + k, k = 1.. in order of first appearance of the group
        let mut order: Vec<String> = vec![];
        for (_, n) in members {
            if !order.contains(n) {
                order.push(n.clone());
            }
        }
        if order.len() < 2 {
            return Err(fail(
                "dedup:rename-single-group",
                format!("entries at {path:?} were renamed although they form one group: {members:?}"),
                decoded,
            ));
        }
        for (k, n) in order.iter().enumerate() {
            let want = format!("{old}{}", k + 1);
            if *n != want {
                return Err(fail(
                    "dedup:numbering",
                    format!("group {k} at {path:?} is named {n}, expected {want} (members {members:?})"),
                    decoded,
                ));
            }
        }
        stats.label("family_renamed");
        if order.len() > 2 {
            stats.label("family_with_more_than_two_shapes");
        }
    }
    // instantiations of one definition stay together
    let mut by_key: BTreeMap<(&Vec<String>, &String), Vec<(u32, &Vec<String>)>> = BTreeMap::new();
    for (b, a) in before.types.iter().zip(after.types.iter()) {
        if let Some(k) = keys.get(&b.id) {
            by_key
                .entry((&b.ty.path.segments, k))
                .or_default()
                .push((b.id, &a.ty.path.segments));
        }
    }
    for ((path, _), ms) in &by_key {
        if ms.len() >= 2 {
            stats.label("instantiations_of_one_definition");
            if ms.iter().any(|m| m.1 != ms[0].1) {
                return Err(fail(
                    "dedup:instantiations-split",
                    format!("instantiations of one definition at {path:?} no longer share a path: {ms:?}"),
                    decoded,
                ));
            }
        }
    }
    // idempotence
    let mut twice = after.clone();
    match guard(|| ensure_unique_type_paths(&mut twice)) {
        Ok(Ok(())) => {}
        other => {
            return Err(fail(
                "dedup:second-run-failed",
                format!("second run failed: {other:?}"),
                decoded,
            ))
        }
    }
    if registry_json(&twice) != registry_json(&after) {
        return Err(Failure::new("a second run of ensure_unique_type_paths changes the registry again")
            .sig(if collision_prone(before) { "dedup:renamed-path-collides" } else { "dedup:not-idempotent" })
            .with(json!({"case": decoded(), "after_first": registry_json(&after), "after_second": registry_json(&twice)})));
    }
    // sufficiency
    match run_typegen(&after, spec) {
        GenResult::Err(ErrKind::DuplicateTypePath(p)) => {
            return Err(Failure::new(format!(
                "generation still fails with DuplicateTypePath({p}) after ensure_unique_type_paths"
            ))
            .sig(if collision_prone(before) { "dedup:renamed-path-collides" } else { "dedup:insufficient" })
            .with(json!({"case": decoded(), "dedup_registry": registry_json(&after)})));
        }
        GenResult::Panic(p) => {
            return Err(fail("dedup:generation-panic", format!("generation after dedup panicked: {p}"), decoded))
        }
        _ => {}
    }
    Ok(any_renamed)
}

fn probe_collision() -> Result<(), Failure> {
    use crate::program::*;
    let unit = |name: &str, t: Prim| Def {
        path: vec!["m".into(), name.into()],
        params: vec![],
        docs: vec![],
        body: Body::Struct(Fields::Named(vec![FieldDef {
            name: Some("a".into()),
            ty: Ty::Prim(t),
            compact_attr: false,
            docs: vec![],
        }])),
        config_inner: None,
    };
    let prog = Program {
        name_style: 0,
        defs: vec![unit("Foo", Prim::U8), unit("Foo", Prim::U16), unit("Foo1", Prim::Bool)],
        roots: vec![Ty::Def(0, vec![]), Ty::Def(1, vec![]), Ty::Def(2, vec![])],
    };
    let low = crate::lower::lower(&prog);
    let text = prog.to_text();
    let mut st = Stats::default();
    let decoded = || json!({"program": text});
    dedup_contract(&low.registry, &BTreeMap::new(), &SettingsSpec::default(), &mut st, &decoded).map(|_| ())
}

/// Regression probe (seeded change C04c): an outer same-path family with three shapes over a nested same-path
/// family; shapes 1 and 2 hold X, shape 3 equals shape 2 except for holding Y; the nested field comes first.
/// Every order of the five roots.
fn probe_nested_families() -> Result<(), Failure> {
    use crate::program::*;
    let fld = |n: &str, t: Ty| FieldDef { name: Some(n.into()), ty: t, compact_attr: false, docs: vec![] };
    let inner = |t: Prim| Def {
        path: vec!["m".into(), "Inner".into()],
        params: vec![],
        docs: vec![],
        body: Body::Struct(Fields::Named(vec![fld("a", Ty::Prim(t))])),
        config_inner: None,
    };
    let outer = |i: usize, t: Prim| Def {
        path: vec!["m".into(), "Outer".into()],
        params: vec![],
        docs: vec![],
        body: Body::Struct(Fields::Named(vec![fld("inner", Ty::Seq(SeqKind::Vec, Box::new(Ty::Def(i, vec![])))), fld("b", Ty::Prim(t))])),
        config_inner: None,
    };
    let defs = vec![inner(Prim::U8), inner(Prim::U16), outer(0, Prim::U8), outer(0, Prim::U16), outer(1, Prim::U16)];
    let mut orders: Vec<Vec<usize>> = vec![vec![]];
    for _ in 0..5 {
        orders = orders
            .into_iter()
            .flat_map(|a| (0..5).filter(|x| !a.contains(x)).map(|x| { let mut b = a.clone(); b.push(x); b }).collect::<Vec<_>>())
            .collect();
    }
    for order in orders {
        let prog = Program { name_style: 0, defs: defs.clone(), roots: order.iter().map(|d| Ty::Def(*d, vec![])).collect() };
        let low = crate::lower::lower(&prog);
        let text = prog.to_text();
        let mut st = Stats::default();
        let decoded = || json!({"program": text});
        dedup_contract(&low.registry, &BTreeMap::new(), &SettingsSpec::default(), &mut st, &decoded)
            .map_err(|f| f.sig("regress:nested-families-three-shapes"))?;
    }
    Ok(())
}

impl Property for C04 {
    fn id(&self) -> &'static str {
        "C04"
    }
    fn rule(&self) -> String {
        "tape -> program with same-path families (generic instantiations, associated-type definitions, two versions with 2-5 shapes, \
         names already ending in digits) -> lowered registry in lowering order or randomly permuted; plus closed sub-registries of the \
         Polkadot metadata. Oracle: before/after comparison of ensure_unique_type_paths (frame condition on ids, order, defs, params, docs, \
         namespaces; all-or-nothing renaming per path; >= 2 groups when renamed; new name = old name + 1..k in order of first appearance; \
         instantiations of one coincidence-free definition share one path afterwards; second run is the identity; generate_types_mod no \
         longer reports DuplicateTypePath). Non-trivial: registry in which at least one path carries >= 2 shape groups (was renamed); \
         distinct by hash of the registry JSON."
            .into()
    }
    fn assumptions(&self) -> Vec<String> {
        vec![
            "whether two groups really differ in shape is decided by C03's oracle (every id stays wire-faithful after de-duplication); C04 checks the contract around the grouping".into(),
            "registries of the known finding dedup:renamed-path-collides (a family ns::Foo next to an existing ns::Foo<digits>) are excluded from the main search and counted".into(),
        ]
    }
    fn self_check(&self) -> Result<(), String> {
        crate::realcorpus::self_check(4, 20)
    }
    fn probes(&self) -> Vec<Probe> {
        vec![Probe {
            signature: "dedup:renamed-path-collides",
            what: "ensure_unique_type_paths renames m::Foo to m::Foo1 although another type already lives at m::Foo1; generation still fails with DuplicateTypePath and a second run renames again",
            run: Box::new(probe_collision),
        },
        Probe {
            signature: "regress:nested-families-three-shapes",
            what: "m::Outer{inner: Vec<Inner>, b} in three shapes over m::Inner{a} in two shapes, every order of the roots",
            run: Box::new(probe_nested_families),
        }]
    }
    fn strata(&self, tier: Tier) -> Vec<Stratum> {
        vec![
            Stratum::random("programs", tier.pick(40_000, 1_000_000), tier.pick(384, 768)),
            Stratum::random("polkadot_subregistries", tier.pick(300, 6_000), 96),
        ]
    }
    fn eval(&self, stratum: &str, input: Input, stats: &mut Stats) -> Result<(), Failure> {
        let Input::Tape(bytes) = input else {
            return Err(Failure::infra("C04 expects tapes"));
        };
        let mut t = Tape::new(bytes);
        match stratum {
            "programs" => {
                let mut opts = GenOpts::full();
                opts.lookalike = false;
                let Some(case) = make_case(&mut t, &opts) else {
                    stats.count("discard_too_large", 1);
                    return Ok(());
                };
                let (reg, perm) = if t.flag() {
                    let perm = gen_perm(&mut t, case.low.registry.types.len());
                    (permute_registry(&case.low.registry, &perm), Some(perm))
                } else {
                    (case.low.registry.clone(), None)
                };
                if collision_prone(&reg) {
                    stats.count("excluded_known_rename_collision_shape", 1);
                    return Ok(());
                }
                // the "instantiations stay together" clause is claimed for coincidence-free programs
                // (every instantiation in the closure of the roots), see DESIGN.md 3.4
                let keys = if case.cf.all_cf {
                    stats.count("cf_programs", 1);
                    def_keys(&case.gen.prog, &case.low, &case.cf.inst_cf, perm.as_deref())
                } else {
                    stats.count("non_cf_programs_without_stay_together_clause", 1);
                    BTreeMap::new()
                };
                let mut spec = SettingsSpec::default();
                spec.root = crate::settings::pick_root(&mut t, &reg);
                let text = case.gen.prog.to_text();
                let decoded = || json!({"program": text, "registry": registry_json(&reg)});
                if !families(&reg).is_empty() {
                    stats.label("has_same_path_family");
                }
                let renamed = dedup_contract(&reg, &keys, &spec, stats, &decoded)?;
                if renamed {
                    stats.nontrivial(hash_str(&registry_json(&reg).to_string()));
                    for l in ["two_versions", "assoc_stratum", "digit_name", "skipped_param", "near_miss_version", "near_miss_group_version", "near_miss_group_of_2_or_more", "recursion"] {
                        if case.gen.labels.contains(l) {
                            stats.label(l);
                        }
                    }
                    stats.sample("renamed_family", || json!({"program": text}));
                }
                Ok(())
            }
            "polkadot_subregistries" => {
                let (reg, _) = crate::metadata::sub_registry(&mut t, 30);
                let spec = SettingsSpec::default();
                let n = reg.types.len();
                let decoded = || json!({"polkadot_subregistry_types": n, "registry": registry_json(&reg)});
                stats.count("polkadot_types_checked", n as u64);
                let renamed = dedup_contract(&reg, &BTreeMap::new(), &spec, stats, &decoded)?;
                if !families(&reg).is_empty() {
                    stats.label("polkadot_family");
                }
                if renamed {
                    stats.nontrivial(hash_str(&registry_json(&reg).to_string()));
                }
                Ok(())
            }
            _ => Err(Failure::infra(format!("unknown stratum {stratum}"))),
        }
    }
}
