//! C02 Generated module is closed, well-formed Rust that compiles.

use crate::case::*;
use crate::engine::*;
use crate::gen::GenOpts;
use crate::lower::{permute_registry, registry_json};
use crate::props::c01::gen_perm;
use crate::props::c03::collision_prone;
use crate::settings::{gen_settings, SettingsOpts, SettingsSpec};
use crate::static_check::StaticCtx;
use crate::tape::{hash_str, Tape};
use scale_info::PortableRegistry;
use scale_typegen::utils::ensure_unique_type_paths;
use serde_json::{json, Value};

pub struct C02;

/// static well-formedness of the output for `reg` (after de-duplication when paths repeat).
/// Ok(None): nothing to check (generation failed for a reason that is not C02's business).
pub fn static_oracle(
    reg: &PortableRegistry,
    spec: &SettingsSpec,
    stats: &mut Stats,
    decoded: &dyn Fn() -> Value,
) -> Result<Option<Box<GenOut>>, Failure> {
    let mut reg_used = reg.clone();
    let mut res = run_typegen(&reg_used, spec);
    if let GenResult::Err(ErrKind::DuplicateTypePath(_)) = res {
        stats.label("deduplicated_first");
        if collision_prone(reg) {
            stats.count("excluded_known_rename_collision_shape", 1);
            return Ok(None);
        }
        if !matches!(guard(|| ensure_unique_type_paths(&mut reg_used)), Ok(Ok(()))) {
            return Ok(None);
        }
        res = run_typegen(&reg_used, spec);
    }
    let out = match res {
        GenResult::Ok(o) => o,
        GenResult::Unparsable(e, toks) => {
            return Err(Failure::new(e)
                .sig("c02:unparsable")
                .with(json!({"case": decoded(), "tokens": toks})))
        }
        GenResult::Panic(p) => {
            return Err(Failure::new(format!("generation panicked: {p}"))
                .sig("c02:panic")
                .with(decoded()))
        }
        GenResult::Err(_) => {
            stats.label("generation_error");
            return Ok(None);
        }
    };
    let mut ctx = StaticCtx::new(&out.gm, spec);
    if let Err(e) = ctx.check_module() {
        let sig = if e.contains("only used recursively") {
            "c02:param-only-used-recursively"
        } else if e.contains("on a boxed field") {
            "c02:compact-attr-on-boxed-field"
        } else {
            "c02:static"
        };
        return Err(Failure::new(format!("generated module is not well-formed: {e}"))
            .sig(sig)
            .with(json!({"case": decoded(), "tokens": out.tokens})));
    }
    // every resolved type path is closed and has the right arity, too
    let settings = spec.build();
    for t in &reg_used.types {
        if let Ok(Ok(toks)) = resolve_tokens(&reg_used, &settings, t.id) {
            match syn::parse_str::<syn::Type>(&toks) {
                Ok(ty) => {
                    if let Err(e) = ctx.check_closed_type(&ty) {
                        return Err(Failure::new(format!("resolve_type_path({}) = `{toks}`: {e}", t.id))
                            .sig("c02:static-resolved-path")
                            .with(json!({"case": decoded(), "tokens": out.tokens})));
                    }
                }
                Err(e) => {
                    return Err(Failure::new(format!("resolve_type_path({}) = `{toks}` does not parse: {e}", t.id))
                        .sig("c02:unparsable")
                        .with(decoded()))
                }
            }
        }
    }
    stats.count("paths_resolved", ctx.paths_checked);
    stats.count("items_checked", out.gm.items.len() as u64);
    Ok(Some(out))
}

fn probe_boxed_compact() -> Result<(), Failure> {
    use crate::program::*;
    let prog = Program {
        name_style: 0,
        defs: vec![Def {
            path: vec!["krate".into(), "BoxedCompact".into()],
            params: vec![],
            docs: vec![],
            body: Body::Struct(Fields::Named(vec![FieldDef {
                name: Some("a".into()),
                ty: Ty::Ptr(PtrKind::Box, Box::new(Ty::Compact(Box::new(Ty::Prim(Prim::U32))))),
                compact_attr: false,
                docs: vec![],
            }])),
            config_inner: None,
        }],
        roots: vec![Ty::Def(0, vec![])],
    };
    let low = crate::lower::lower(&prog);
    let text = prog.to_text();
    let mut st = Stats::default();
    let decoded = || json!({"program": text});
    static_oracle(&low.registry, &SettingsSpec::default(), &mut st, &decoded).map(|_| ())
}

fn probe_recursive_only() -> Result<(), Failure> {
    use crate::program::*;
    let f = |n: &str, t: Ty| FieldDef {
        name: Some(n.into()),
        ty: t,
        compact_attr: false,
        docs: vec![],
    };
    let prog = Program {
        name_style: 0,
        defs: vec![Def {
            path: vec!["krate".into(), "Node".into()],
            params: vec![ParamDecl {
                name: "T".into(),
                skipped: false,
                config: false,
                compactable: false,
                bitstore: false,
                bitorder: false,
            }],
            docs: vec![],
            body: Body::Struct(Fields::Named(vec![
                f("next", Ty::Opt(Box::new(Ty::Ptr(PtrKind::Box, Box::new(Ty::Def(0, vec![Ty::Param(0)])))))),
                f("marker", Ty::Phantom(Box::new(Ty::Param(0)))),
            ])),
            config_inner: None,
        }],
        roots: vec![Ty::Def(0, vec![Ty::Prim(Prim::U8)])],
    };
    let low = crate::lower::lower(&prog);
    let text = prog.to_text();
    let mut st = Stats::default();
    let decoded = || json!({"program": text});
    static_oracle(&low.registry, &SettingsSpec::default(), &mut st, &decoded).map(|_| ())
}

impl Property for C02 {
    fn id(&self) -> &'static str {
        "C02"
    }
    fn probes(&self) -> Vec<Probe> {
        vec![Probe {
            signature: "c02:param-only-used-recursively",
            what: "struct Node<T> { next: Option<Box<Node<T>>>, marker: PhantomData<T> }",
            run: Box::new(probe_recursive_only),
        },
        Probe {
            signature: "c02:compact-attr-on-boxed-field",
            what: "struct BoxedCompact { a: Box<Compact<u32>> }",
            run: Box::new(probe_boxed_compact),
        }]
    }
    fn rule(&self) -> String {
        "tape -> program from ALL strata (coincidental or not, associated types, two versions, look-alike names, recursion through \
         Box/Vec/collections, skipped and unused parameters, nested modules) -> registry (random order) -> settings; when generation \
         reports DuplicateTypePath ensure_unique_type_paths is applied first; plus the Polkadot registry and closed sub-registries. \
         Oracle: syn::parse_file, then a static checker over the parsed module: unique names, every path rooted at the types module \
         resolves (Rust scoping through the `use super::root` chain) with exact generic arity, external paths have std's arity, every \
         `_i` is declared and every declared parameter is used (E0392), codec indices distinct, no recursive type without indirection \
         (E0072, with generic flow). Non-trivial: >= 3 emitted items and >= 1 of: generic with unused/skipped parameter, recursion, \
         >= 2 module levels, de-duplicated family; distinct by hash of (registry JSON, settings)."
            .into()
    }
    fn assumptions(&self) -> Vec<String> {
        vec![
            "the static checker is the harness' model of rustc errors E0107/E0392/E0412/E0428/E0072; rustc itself is run in the thorough tier".into(),
            "substitute targets, derive paths and the compact/bits paths are user supplied and assumed to exist".into(),
        ]
    }
    fn self_check(&self) -> Result<(), String> {
        crate::realcorpus::self_check(5, 20)
    }
    fn strata(&self, tier: Tier) -> Vec<Stratum> {
        vec![
            Stratum::random("programs", tier.pick(30_000, 800_000), tier.pick(384, 768)),
            Stratum::random("polkadot_subregistries", tier.pick(200, 4_000), 96),
            Stratum::exhaustive("polkadot_full", 1),
        ]
    }
    /// rustc stage: modules from all strata (de-duplicated first when needed) and the whole Polkadot
    /// module are compiled with codec derives
    fn extra(&self, tier: Tier, seed: u64, stats: &mut Stats) -> Result<(), Failure> {
        let (batches, size) = tier.pick((1, 60), (10, 200));
        for b in 0..batches {
            let (cases, counters) = crate::rustc_tier::make_cases(seed, 0xC02 + b as u64, size, false, 0);
            for (k, v) in counters {
                if !k.starts_with("label:") {
                    stats.count(&format!("rustc_{k}"), v);
                }
            }
            crate::rustc_tier::run_batch(&format!("C02-{b}"), &cases, false)?;
            stats.count("rustc_cases_compiled", cases.len() as u64);
        }
        let pk = crate::rustc_tier::polkadot_case()?;
        crate::rustc_tier::run_batch("C02-polkadot", &[pk], false)?;
        stats.count("rustc_polkadot_module_compiled", 1);
        Ok(())
    }
    fn eval(&self, stratum: &str, input: Input, stats: &mut Stats) -> Result<(), Failure> {
        match (stratum, input) {
            ("programs", Input::Tape(bytes)) => {
                let mut t = Tape::new(bytes);
                let opts = GenOpts::full();
                let Some(case) = make_case(&mut t, &opts) else {
                    stats.count("discard_too_large", 1);
                    return Ok(());
                };
                let spec = gen_settings(&mut t, &case.low.registry, &SettingsOpts::wire());
                let reg = if t.flag() {
                    let perm = gen_perm(&mut t, case.low.registry.types.len());
                    permute_registry(&case.low.registry, &perm)
                } else {
                    case.low.registry.clone()
                };
                let text = case.gen.prog.to_text();
                let decoded = || json!({"program": text, "settings": spec.to_json(), "registry": registry_json(&reg)});
                if let Some(out) = static_oracle(&reg, &spec, stats, &decoded)? {
                    let interesting = ["skipped_param", "phantom_field", "recursion", "nested_modules", "two_versions", "assoc_stratum"]
                        .iter()
                        .any(|l| case.gen.labels.contains(l));
                    if out.gm.items.len() >= 3 && interesting {
                        stats.nontrivial(hash_str(&format!("{}{}", registry_json(&reg), spec.to_json())));
                        for l in &case.gen.labels {
                            stats.label(l);
                        }
                        if !case.cf.all_cf {
                            stats.label("non_cf_program");
                        }
                        stats.sample("program_case", || json!({"program": text, "emitted": out.tokens}));
                    }
                }
                Ok(())
            }
            ("polkadot_subregistries", Input::Tape(bytes)) => {
                let mut t = Tape::new(bytes);
                let (reg, _) = crate::metadata::sub_registry(&mut t, 30);
                let spec = gen_settings(&mut t, &reg, &SettingsOpts::wire());
                let n = reg.types.len();
                let decoded = || json!({"polkadot_subregistry_types": n, "settings": spec.to_json(), "registry": registry_json(&reg)});
                if let Some(out) = static_oracle(&reg, &spec, stats, &decoded)? {
                    if out.gm.items.len() >= 3 {
                        stats.label("polkadot_subregistry");
                        stats.nontrivial(hash_str(&format!("{}{}", registry_json(&reg), spec.to_json())));
                    }
                }
                Ok(())
            }
            ("polkadot_full", Input::Index(_)) => {
                let reg = crate::metadata::polkadot();
                let spec = SettingsSpec::default();
                let decoded = || json!({"polkadot": "full registry"});
                if let Some(out) = static_oracle(reg, &spec, stats, &decoded)? {
                    stats.label("polkadot_full");
                    stats.count("polkadot_items", out.gm.items.len() as u64);
                    stats.nontrivial_distinct_by_construction();
                }
                Ok(())
            }
            _ => Err(Failure::infra(format!("unknown stratum {stratum}"))),
        }
    }
}
