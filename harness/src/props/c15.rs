//! C15 The description formatter only inserts whitespace and is total.

use crate::engine::*;
use crate::tape::{hash_str, Tape};
use scale_typegen_description::format_type_description;
use serde_json::json;

pub struct C15;

const ALPHA: [char; 9] = ['{', '}', '(', ')', '<', '>', ',', 'a', ' '];

fn strip_ws(s: &str) -> String {
    s.chars().filter(|c| !c.is_whitespace()).collect()
}

/// index -> string over ALPHA, enumerating by length then lexicographically.
pub fn nth_string(mut idx: u64, max_len: u32) -> String {
    let mut len = 0u32;
    let mut block = 1u64;
    while len <= max_len {
        if idx < block {
            break;
        }
        idx -= block;
        block *= ALPHA.len() as u64;
        len += 1;
    }
    let mut s = vec![' '; len as usize];
    for i in (0..len as usize).rev() {
        s[i] = ALPHA[(idx % ALPHA.len() as u64) as usize];
        idx /= ALPHA.len() as u64;
    }
    s.into_iter().collect()
}

pub fn count_strings(max_len: u32) -> u64 {
    let mut t = 0u64;
    let mut b = 1u64;
    for _ in 0..=max_len {
        t += b;
        b *= ALPHA.len() as u64;
    }
    t
}

fn opener_of(c: char) -> Option<char> {
    match c {
        '}' => Some('{'),
        ')' => Some('('),
        '>' => Some('<'),
        _ => None,
    }
}

pub fn properly_nested(s: &str) -> bool {
    let mut st = vec![];
    for c in s.chars() {
        match c {
            '{' | '(' | '<' => st.push(c),
            '}' | ')' | '>' => {
                if st.pop() != opener_of(c) {
                    return false;
                }
            }
            _ => {}
        }
    }
    st.is_empty()
}

/// Depth model for properly nested, whitespace-free input (see DESIGN.md C15).
/// Returns (broken scopes, unbroken scopes) on success.
pub fn depth_model(out: &str) -> Result<(u32, u32), String> {
    let ch: Vec<char> = out.chars().collect();
    let n = ch.len();
    let mut stack: Vec<(char, bool)> = vec![];
    let mut broken_n = 0;
    let mut unbroken_n = 0;
    // check the indentation that starts at position `from` (just after a line break or at 0)
    let check_indent = |from: usize, stack: &Vec<(char, bool)>| -> Result<(), String> {
        let mut j = from;
        while j < n && ch[j] == ' ' {
            j += 1;
        }
        let spaces = j - from;
        let next = ch.get(j).copied();
        let mut d = stack.iter().filter(|s| s.1).count();
        if let Some(c) = next {
            if opener_of(c).is_some() {
                if let Some(top) = stack.last() {
                    if top.1 {
                        d -= 1;
                    }
                }
            }
        }
        let expect = 4 * d + if next == Some('{') { 1 } else { 0 };
        if spaces != expect {
            return Err(format!(
                "line starting at char {from}: {spaces} spaces, model expects {expect} (depth {d})"
            ));
        }
        Ok(())
    };
    check_indent(0, &stack)?;
    let mut i = 0;
    while i < n {
        let c = ch[i];
        match c {
            '{' | '(' | '<' => {
                let broken = ch.get(i + 1) == Some(&'\n');
                if c == '{' {
                    if !broken {
                        return Err(format!("'{{' at {i} not followed by a line break"));
                    }
                    // preceded by exactly one separating space unless it is first on its line
                    // (that case is covered by check_indent's +1)
                    let mut k = i;
                    while k > 0 && ch[k - 1] == ' ' {
                        k -= 1;
                    }
                    let first_on_line = k == 0 || ch[k - 1] == '\n';
                    if !first_on_line && i - k != 1 {
                        return Err(format!("'{{' at {i} preceded by {} spaces", i - k));
                    }
                }
                if broken {
                    broken_n += 1
                } else {
                    unbroken_n += 1
                }
                stack.push((c, broken));
            }
            '}' | ')' | '>' => {
                let top = stack.pop();
                if top.map(|t| t.0) != opener_of(c) {
                    return Err(format!("closer {c} at {i} does not match"));
                }
            }
            '\n' => {
                check_indent(i + 1, &stack)?;
            }
            _ => {}
        }
        i += 1;
    }
    if !stack.is_empty() {
        return Err("output ends at depth > 0".into());
    }
    Ok((broken_n, unbroken_n))
}

pub fn check_string(input: &str, stats: &mut Stats, want_nested: bool, by_index: bool) -> Result<(), Failure> {
    let out = match guard(|| format_type_description(input)) {
        Ok(o) => o,
        Err(p) => {
            return Err(Failure::new(format!("formatter panicked: {p}"))
                .sig("formatter:panic")
                .with(json!({"input": input})))
        }
    };
    if strip_ws(&out) != strip_ws(input) {
        return Err(Failure::new("output differs from input by more than whitespace")
            .sig("formatter:non-whitespace-change")
            .with(json!({"input": input, "output": out})));
    }
    let brackets = input
        .chars()
        .filter(|c| matches!(c, '{' | '}' | '(' | ')' | '<' | '>'))
        .count();
    // exhaustive strata enumerate each string once; tape strata count only strings outside the
    // exhaustively enumerated space (longer than 9 chars), by hash
    let long = input.chars().count() > 9;
    let mark = |stats: &mut Stats| {
        if by_index {
            stats.nontrivial_distinct_by_construction()
        } else if long {
            stats.nontrivial(hash_str(input))
        }
    };
    let ws_free = !input.chars().any(|c| c.is_whitespace());
    if ws_free && properly_nested(input) {
        stats.label("properly_nested_ws_free");
        match depth_model(&out) {
            Ok((b, u)) => {
                if b >= 1 && u >= 1 {
                    stats.label("nested_with_broken_and_unbroken_scope");
                    mark(stats);
                    stats.sample("nested_with_broken_and_unbroken_scope", || {
                        json!({"input": input, "output": out})
                    });
                } else if brackets >= 2 && !want_nested {
                    mark(stats);
                }
            }
            Err(m) => {
                return Err(Failure::new(format!("depth model: {m}"))
                    .sig("formatter:indentation")
                    .with(json!({"input": input, "output": out})));
            }
        }
    } else if brackets >= 2 && !want_nested {
        stats.label("unbalanced_or_with_whitespace");
        mark(stats);
        stats.sample("unbalanced_or_with_whitespace", || {
            json!({"input": input, "output": out})
        });
    }
    Ok(())
}

/// arbitrary (mostly hostile) strings
fn random_string(t: &mut Tape) -> String {
    let mut s = String::new();
    let n = t.choose(200);
    for _ in 0..n {
        match t.weighted(&[6, 3, 1, 1, 1]) {
            0 => s.push(ALPHA[t.choose(7)]),
            1 => s.push((b'a' + t.choose(26) as u8) as char),
            2 => s.push([' ', '\n', '\t', '\r', '\u{a0}', '\u{2003}'][t.choose(6)]),
            3 => {
                let v = ((t.byte() as u32) << 16) | ((t.byte() as u32) << 8) | t.byte() as u32;
                s.push(char::from_u32(v % 0x110000).unwrap_or('\u{fffd}'));
            }
            _ => s.push([':', ';', '[', ']', '0', '_', '\u{0}', '\u{7f}'][t.choose(8)]),
        }
    }
    s
}

/// properly nested whitespace-free strings whose scopes straddle the 32 character look-ahead
fn nested_string(t: &mut Tape) -> String {
    fn ident(t: &mut Tape, s: &mut String, len: usize) {
        for _ in 0..len {
            s.push((b'a' + t.choose(6) as u8) as char);
        }
    }
    fn scope(t: &mut Tape, s: &mut String, depth: u32) {
        let kind = t.weighted(&[3, 3, 2]);
        let (o, c) = [('(', ')'), ('<', '>'), ('{', '}')][kind];
        s.push(o);
        let start = s.len();
        // target content length: either short or around the 32 char look-ahead boundary
        let target = match t.weighted(&[2, 3, 1]) {
            0 => t.choose(8),
            1 => 24 + t.choose(16),
            _ => 40 + t.choose(60),
        };
        let mut guard = 0;
        while s.len() - start < target && guard < 40 && t.take_fuel(1) {
            guard += 1;
            match t.weighted(&[3, 3, 2]) {
                0 => {
                    let l = 1 + t.choose(6);
                    ident(t, s, l)
                }
                1 => s.push(','),
                _ => {
                    if depth < 16 {
                        scope(t, s, depth + 1)
                    } else {
                        s.push('a')
                    }
                }
            }
        }
        // optional exact padding to hit a boundary length
        if t.flag() {
            let cur = s.len() - start;
            let want = 28 + t.choose(9);
            if cur < want {
                ident(t, s, want - cur);
            }
        }
        s.push(c);
    }
    let mut s = String::new();
    // deep chains: k nested scopes (mostly of one kind, so that per-kind scope stacks grow deep),
    // with a broken scope at the bottom or somewhere inside
    if t.chance(70) {
        // mostly up to 19 scopes; sometimes 20..79 (fixed-size or bit-packed scope stacks, indentation tables)
        let k = if t.chance(200) { 2 + t.choose(18) } else { 20 + t.choose(60) };
        let kinds = [('(', ')'), ('<', '>'), ('{', '}')];
        let main = t.choose(2);
        let mut closers = vec![];
        for i in 0..k {
            let kind = if t.chance(40) { t.choose(3) } else { main };
            let (o, c) = kinds[kind];
            if t.chance(60) {
                let l = 1 + t.choose(3);
                ident(t, &mut s, l);
            }
            s.push(o);
            closers.push(c);
            if i == 0 && t.flag() {
                // something long enough to make the outermost scope big
                let l = t.choose(40);
                ident(t, &mut s, l);
                if t.flag() {
                    s.push(',');
                }
            }
        }
        if t.flag() {
            ident(t, &mut s, 1);
        }
        while let Some(c) = closers.pop() {
            s.push(c);
            if t.chance(40) {
                s.push(',');
                let l = 1 + t.choose(3);
                ident(t, &mut s, l);
            }
        }
        return s;
    }
    let n = 1 + t.choose(3);
    for i in 0..n {
        if i > 0 && t.flag() {
            s.push(',');
        }
        if t.flag() {
            let l = 1 + t.choose(4);
            ident(t, &mut s, l);
        }
        scope(t, &mut s, 0);
    }
    s
}

impl Property for C15 {
    fn id(&self) -> &'static str {
        "C15"
    }
    fn case_deadline_s(&self) -> Option<u64> {
        // the statement claims termination; ordinary cases take milliseconds
        Some(60)
    }
    fn rule(&self) -> String {
        "strata: (exhaustive) every string over the 9-character alphabet `{}()<>,a` + space up to the length bound, by index; \
         (random) tape-decoded hostile strings incl. arbitrary Unicode/control characters; (nested) tape-decoded properly nested \
         whitespace-free strings whose scope lengths straddle the 32-character look-ahead. Oracle: no panic, strip_ws(out)==strip_ws(in), \
         and for properly nested whitespace-free input the indentation depth model. Non-trivial: string with >= 2 bracket characters \
         (exhaustive/random) or properly nested with >= 1 broken and >= 1 unbroken scope (nested); distinct by hash of the input string."
            .into()
    }
    fn assumptions(&self) -> Vec<String> {
        vec![
            "whitespace = char::is_whitespace".into(),
            "the small/large scope decision itself is not constrained (the property does not state it)".into(),
        ]
    }
    fn strata(&self, tier: Tier) -> Vec<Stratum> {
        let l = tier.pick(7, 9);
        vec![
            Stratum::exhaustive(&format!("exhaustive_len_le_{l}"), count_strings(l)),
            Stratum::random("random_hostile", tier.pick(200_000, 4_000_000), 400),
            Stratum::random("nested", tier.pick(300_000, 6_000_000), 400),
        ]
    }
    fn eval(&self, stratum: &str, input: Input, stats: &mut Stats) -> Result<(), Failure> {
        match (stratum, input) {
            (s, Input::Index(i)) if s.starts_with("exhaustive_len_le_") => {
                let l: u32 = s["exhaustive_len_le_".len()..].parse().unwrap();
                let st = nth_string(i, l);
                check_string(&st, stats, false, true)
            }
            ("random_hostile", Input::Tape(t)) => {
                let mut t = Tape::new(t);
                let s = random_string(&mut t);
                check_string(&s, stats, false, false)
            }
            ("nested", Input::Tape(t)) => {
                let mut t = Tape::new(t);
                let s = nested_string(&mut t);
                if !properly_nested(&s) {
                    return Err(Failure::infra(format!("nested generator produced {s:?}")));
                }
                check_string(&s, stats, true, false)
            }
            _ => Err(Failure::infra(format!("unknown stratum {stratum}"))),
        }
    }
}
