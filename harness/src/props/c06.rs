//! C06 Output is a deterministic function of registry and settings-as-sets.

use crate::case::*;
use crate::engine::*;
use crate::gen::GenOpts;
use crate::genmod::{tokens_nospace, GMod};
use crate::lower::registry_json;
use crate::settings::*;
use crate::tape::{hash_str, mix, Tape};
use scale_info::PortableRegistry;
use scale_typegen::typegen::validation::validate_substitutes_and_derives_against_registry;
use scale_typegen::utils::ensure_unique_type_paths;
use serde_json::{json, Value};
use std::collections::{BTreeMap, BTreeSet};

pub struct C06;

/// settings with many entries per set, so that an order leak is visible
pub fn gen_rich_settings(t: &mut Tape, reg: &PortableRegistry) -> SettingsSpec {
    let mut s = SettingsSpec::default();
    s.root = pick_root(t, reg);
    s.compact_as = Some(COMPACT_AS_PATH.into());
    let mut pool: Vec<&str> = DERIVE_POOL.to_vec();
    for _ in 0..(6 + t.choose(4)) {
        let i = t.choose(pool.len());
        s.global_derives.push(pool.remove(i).to_string());
    }
    let mut pool: Vec<&str> = ATTR_POOL.to_vec();
    for _ in 0..(4 + t.choose(3)) {
        let i = t.choose(pool.len());
        s.global_attrs.push(pool.remove(i).to_string());
    }
    let paths = user_paths(reg);
    if !paths.is_empty() {
        for k in 0..(5 + t.choose(4)) {
            let p = &paths[t.choose(paths.len())];
            let mut ds = vec![];
            for _ in 0..(1 + t.choose(3)) {
                let d = DERIVE_POOL[t.choose(DERIVE_POOL.len())].to_string();
                if !ds.contains(&d) {
                    ds.push(d);
                }
            }
            let mut attrs = vec![];
            for _ in 0..t.choose(3) {
                let a = ATTR_POOL[t.choose(ATTR_POOL.len())].to_string();
                if !attrs.contains(&a) {
                    attrs.push(a);
                }
            }
            s.specific.push(PathReg {
                path: p.join("::"),
                derives: ds,
                attrs,
                recursive: k % 2 == 0 || t.flag(),
            });
        }
        // substitutes: pairwise distinct sources, a few unknown ones too (for validation results)
        let mut used = BTreeSet::new();
        for k in 0..(5 + t.choose(3)) {
            let src = if t.chance(60) {
                format!("unknown_{k}::Type{k}")
            } else {
                paths[t.choose(paths.len())].join("::")
            };
            if used.insert(src.clone()) {
                s.substitutes.push((src, format!("::subst::S{k}")));
            }
        }
        // unknown paths in derives for validation
        s.specific.push(PathReg {
            path: "nowhere::Missing".into(),
            derives: vec!["Debug".into(), "Clone".into(), "Eq".into()],
            attrs: vec![ATTR_POOL[0].into(), ATTR_POOL[2].into()],
            recursive: false,
        });
        s.specific.push(PathReg {
            path: "nowhere::Missing".into(),
            derives: vec!["Hash".into()],
            attrs: vec![],
            recursive: true,
        });
    }
    s
}

pub fn permute_spec(t: &mut Tape, s: &SettingsSpec) -> SettingsSpec {
    fn shuffle<T: Clone>(t: &mut Tape, v: &[T]) -> Vec<T> {
        let mut v = v.to_vec();
        for i in (1..v.len()).rev() {
            let j = t.choose(i + 1);
            v.swap(i, j);
        }
        v
    }
    let mut p = s.clone();
    p.global_derives = shuffle(t, &s.global_derives);
    p.global_attrs = shuffle(t, &s.global_attrs);
    p.specific = shuffle(t, &s.specific);
    for r in p.specific.iter_mut() {
        r.derives = shuffle(t, &r.derives);
        r.attrs = shuffle(t, &r.attrs);
    }
    p.substitutes = shuffle(t, &s.substitutes);
    p
}

/// everything observable of one "run": tokens, de-duplicated registry, validation result as sets
pub fn observe(reg: &PortableRegistry, spec: &SettingsSpec) -> Result<(String, String, String), String> {
    let settings = spec.build();
    let tokens = match guard(|| {
        use scale_typegen::typegen::ir::ToTokensWithSettings;
        scale_typegen::TypeGenerator::new(reg, &settings)
            .generate_types_mod()
            .map(|m| m.to_token_stream(&settings).to_string())
    }) {
        Err(p) => return Err(format!("generation panicked: {p}")),
        Ok(Ok(t)) => t,
        Ok(Err(e)) => format!("ERR {:?}", err_kind(&e)),
    };
    let mut d = reg.clone();
    let dedup = match guard(|| ensure_unique_type_paths(&mut d)) {
        Err(p) => return Err(format!("dedup panicked: {p}")),
        Ok(Ok(())) => registry_json(&d).to_string(),
        Ok(Err(e)) => format!("ERR {:?}", err_kind(&e)),
    };
    let val = match guard(|| validate_substitutes_and_derives_against_registry(&settings.substitutes, &settings.derives, reg)) {
        Err(p) => return Err(format!("validation panicked: {p}")),
        Ok(Ok(())) => "OK".to_string(),
        Ok(Err(e)) => {
            let d: BTreeMap<String, BTreeSet<String>> = e
                .derives_for_unknown_types
                .iter()
                .map(|(p, s)| (tokens_nospace(p), s.iter().map(tokens_nospace).collect()))
                .collect();
            let a: BTreeMap<String, BTreeSet<String>> = e
                .attributes_for_unknown_types
                .iter()
                .map(|(p, s)| (tokens_nospace(p), s.iter().map(tokens_nospace).collect()))
                .collect();
            let s: BTreeSet<(String, String)> = e
                .substitutes_for_unknown_types
                .iter()
                .map(|(a, b)| (tokens_nospace(a), tokens_nospace(b)))
                .collect();
            format!("{d:?}|{a:?}|{s:?}")
        }
    };
    Ok((tokens, dedup, val))
}

fn sorted_check(gm: &GMod) -> Result<(bool, usize), String> {
    let mut rich = false;
    let mut n = 0;
    for item in gm.items.values() {
        n += 1;
        if item.derive_attrs > 1 {
            return Err(format!("{}: more than one #[derive] attribute", item.path.join("::")));
        }
        for w in item.derives_tok.windows(2) {
            if w[0] >= w[1] {
                return Err(format!(
                    "{}: derive list is not strictly increasing by token string: {:?}",
                    item.path.join("::"),
                    item.derives_tok
                ));
            }
        }
        for w in item.attrs_tok.windows(2) {
            if w[0] >= w[1] {
                return Err(format!(
                    "{}: attributes are not strictly increasing by token string: {:?}",
                    item.path.join("::"),
                    item.attrs_tok
                ));
            }
        }
        if item.derives_tok.len() >= 3 && item.attrs_tok.len() >= 2 {
            rich = true;
        }
    }
    Ok((rich, n))
}

fn make(t: &mut Tape, polkadot: bool) -> Option<(PortableRegistry, SettingsSpec, String)> {
    if polkadot {
        let (reg, _) = crate::metadata::sub_registry(t, 20);
        let spec = gen_rich_settings(t, &reg);
        Some((reg, spec, "polkadot sub-registry".into()))
    } else {
        let mut opts = GenOpts::full();
        opts.lookalike = false;
        let case = make_case(t, &opts)?;
        let spec = gen_rich_settings(t, &case.low.registry);
        let text = case.gen.prog.to_text();
        Some((case.low.registry, spec, text))
    }
}

fn case_json(reg: &PortableRegistry, spec: &SettingsSpec) -> Value {
    json!({"registry": registry_json(reg), "settings": spec.to_json()})
}

/// `vcheck gen-once <file>`: prints the three observations' hashes (fresh process, fresh hash seeds)
pub fn gen_once(file: &str) -> i32 {
    let Ok(s) = std::fs::read_to_string(file) else { return 2 };
    let Ok(v) = serde_json::from_str::<Value>(&s) else { return 2 };
    let Ok(reg) = serde_json::from_value::<PortableRegistry>(v["registry"].clone()) else { return 2 };
    let Some(spec) = SettingsSpec::from_json(&v["settings"]) else { return 2 };
    match observe(&reg, &spec) {
        Ok((a, b, c)) => {
            println!("{:016x} {:016x} {:016x}", hash_str(&a), hash_str(&b), hash_str(&c));
            0
        }
        Err(e) => {
            println!("PANIC {e}");
            0
        }
    }
}

/// Regression probe (seeded change C06f): several attributes that share their NAME on one type, and a recursive
/// derive on a generic type with two instantiations (C06c/C06e); 40 observations with freshly built settings.
fn probe_same_named_attributes() -> Result<(), Failure> {
    use crate::program::*;
    let fld = |n: &str, t: Ty| FieldDef { name: Some(n.into()), ty: t, compact_attr: false, docs: vec![] };
    let p = |n: &str| ParamDecl { name: n.into(), skipped: false, config: false, compactable: false, bitstore: false, bitorder: false };
    let sdef = |name: &str, params: Vec<ParamDecl>, f: Vec<FieldDef>| Def {
        path: vec!["krate".into(), name.into()],
        params,
        docs: vec![],
        body: Body::Struct(Fields::Named(f)),
        config_inner: None,
    };
    let prog = Program {
        name_style: 0,
        defs: vec![
            sdef("A", vec![], vec![fld("x", Ty::Prim(Prim::U8))]),
            sdef("B", vec![], vec![fld("y", Ty::Prim(Prim::U16))]),
            sdef("W", vec![p("T")], vec![fld("inner", Ty::Param(0))]),
            sdef("Root", vec![], vec![fld("a", Ty::Def(2, vec![Ty::Def(0, vec![])])), fld("b", Ty::Def(2, vec![Ty::Def(1, vec![])]))]),
        ],
        roots: vec![Ty::Def(3, vec![])],
    };
    let low = crate::lower::lower(&prog);
    let mut spec = SettingsSpec::default();
    spec.global_attrs = vec![
        "#[serde(crate = \"x\")]".into(),
        "#[serde(rename_all = \"camelCase\")]".into(),
        "#[allow(dead_code)]".into(),
        "#[allow(unused)]".into(),
        "#[serde(deny_unknown_fields)]".into(),
    ];
    spec.global_derives = vec!["Debug".into(), "Clone".into(), "Eq".into(), "PartialEq".into()];
    spec.specific = vec![
        PathReg { path: "krate::W".into(), derives: vec!["Hash".into()], attrs: vec!["#[serde(transparent)]".into()], recursive: true },
        PathReg { path: "krate::Root".into(), derives: vec!["Zeta".into()], attrs: vec!["#[allow(missing_docs)]".into()], recursive: true },
    ];
    let first = observe(&low.registry, &spec).map_err(Failure::new)?;
    for k in 0..40 {
        let again = observe(&low.registry, &spec).map_err(Failure::new)?;
        if again != first {
            return Err(Failure::new(format!("observation {k} differs from the first one on equal inputs (fresh settings, fresh maps)"))
                .sig("regress:same-named-attributes")
                .with(json!({"program": prog.to_text(), "settings": spec.to_json(), "first": first.0, "again": again.0})));
        }
    }
    let gm = crate::genmod::parse(&first.0).map_err(|e| Failure::new(format!("output does not parse: {e}")).sig("regress:same-named-attributes"))?;
    sorted_check(&gm).map_err(|m| Failure::new(m).sig("regress:same-named-attributes"))?;
    Ok(())
}

impl Property for C06 {
    fn id(&self) -> &'static str {
        "C06"
    }
    fn probes(&self) -> Vec<Probe> {
        vec![Probe {
            signature: "regress:same-named-attributes",
            what: "five attributes with two names on every type + two recursive registrations reaching W<A> and W<B>, 40 fresh observations",
            run: Box::new(probe_same_named_attributes),
        }]
    }
    fn rule(&self) -> String {
        "tape -> registry (generated program with families, or a Polkadot sub-registry) + settings with >= 6 global derives, >= 4 attributes, \
         >= 5 per-path/recursive registrations, >= 5 substitutes (some unknown paths so that validation reports sets). Metamorphic oracle: the \
         observation (module tokens, registry after ensure_unique_type_paths, validation result as maps of sets) is identical across 8 \
         (thorough 16) repetitions in one thread (every HashMap gets fresh RandomState keys), on 2 fresh threads, with the registration calls \
         replayed in 3 random permutations, and - for a sample of the cases - in 3 (thorough 12) fresh processes; in the parsed output every \
         derive list and attribute list is strictly increasing by token string. Non-trivial: some item carries >= 3 derives and >= 2 attributes; \
         distinct by hash of (registry, settings)."
            .into()
    }
    fn assumptions(&self) -> Vec<String> {
        vec!["'all hash-map seeds' is sampled: tens of fresh RandomStates and a few processes per case; sets carry >= 4 entries so that a leak shows with high probability per trial".into()]
    }
    fn strata(&self, tier: Tier) -> Vec<Stratum> {
        vec![
            Stratum::random("programs", tier.pick(4_000, 80_000), 512),
            Stratum::random("polkadot_subregistries", tier.pick(200, 4_000), 160),
        ]
    }
    fn eval(&self, stratum: &str, input: Input, stats: &mut Stats) -> Result<(), Failure> {
        let Input::Tape(bytes) = input else {
            return Err(Failure::infra("C06 expects tapes"));
        };
        let mut t = Tape::new(bytes);
        let Some((reg, spec, text)) = make(&mut t, stratum == "polkadot_subregistries") else {
            stats.count("discard_too_large", 1);
            return Ok(());
        };
        let decoded = || json!({"source": text, "case": case_json(&reg, &spec)});
        let base = observe(&reg, &spec).map_err(|e| Failure::new(e).sig("c06:panic").with(decoded()))?;
        let trials = if std::env::var("VERIF_TIER").map(|v| v == "thorough").unwrap_or(false) { 16 } else { 8 };
        let differs = |what: &str, o: &(String, String, String)| -> Option<Failure> {
            let which = if o.0 != base.0 {
                "module tokens"
            } else if o.1 != base.1 {
                "de-duplicated registry"
            } else if o.2 != base.2 {
                "validation result"
            } else {
                return None;
            };
            Some(
                Failure::new(format!("{which} differ between two runs on equal inputs ({what})"))
                    .sig(format!("c06:nondeterministic:{}", which.replace(' ', "-")))
                    .with(json!({"case": decoded(), "first": if which == "module tokens" {&base.0} else if which == "validation result" {&base.2} else {&base.1}, "second": if which == "module tokens" {&o.0} else if which == "validation result" {&o.2} else {&o.1}})),
            )
        };
        for _ in 0..trials {
            let o = observe(&reg, &spec).map_err(|e| Failure::new(e).sig("c06:panic").with(decoded()))?;
            if let Some(f) = differs("same thread, fresh maps", &o) {
                return Err(f);
            }
        }
        for _ in 0..2 {
            let (r, s) = (reg.clone(), spec.clone());
            let o = std::thread::spawn(move || observe(&r, &s))
                .join()
                .map_err(|_| Failure::infra("thread join"))?
                .map_err(|e| Failure::new(e).sig("c06:panic").with(decoded()))?;
            if let Some(f) = differs("fresh thread", &o) {
                return Err(f);
            }
        }
        for _ in 0..3 {
            let p = permute_spec(&mut t, &spec);
            let o = observe(&reg, &p).map_err(|e| Failure::new(e).sig("c06:panic").with(decoded()))?;
            if let Some(f) = differs("registration calls in another order", &o) {
                return Err(f);
            }
        }
        stats.count("in_process_trials", trials + 5);
        // sortedness of the parsed output
        if !base.0.starts_with("ERR") {
            let gm = crate::genmod::parse(&base.0).map_err(|e| Failure::new(e).sig("c06:unparsable").with(decoded()))?;
            match sorted_check(&gm) {
                Err(m) => return Err(Failure::new(m).sig("c06:unsorted").with(json!({"case": decoded(), "tokens": base.0}))),
                Ok((rich, n)) => {
                    stats.count("items_checked_sorted", n as u64);
                    if rich {
                        stats.nontrivial(hash_str(&case_json(&reg, &spec).to_string()));
                        stats.sample(if stratum == "programs" { "program_case" } else { "polkadot_case" }, || {
                            json!({"source": text, "settings": spec.to_json()})
                        });
                    }
                }
            }
        } else {
            stats.label("generation_error_compared_too");
        }
        Ok(())
    }
    fn extra(&self, tier: Tier, seed: u64, stats: &mut Stats) -> Result<(), Failure> {
        // fresh processes
        let n_cases = tier.pick(40, 300);
        let n_proc = tier.pick(3, 12);
        let exe = std::env::current_exe().map_err(|e| Failure::infra(format!("current_exe: {e}")))?;
        let dir = verif_dir().join("work");
        let _ = std::fs::create_dir_all(&dir);
        let results = std::sync::Mutex::new(Vec::<Failure>::new());
        let done = std::sync::atomic::AtomicU64::new(0);
        let workers = n_workers();
        std::thread::scope(|sc| {
            for w in 0..workers {
                let (results, done, exe, dir) = (&results, &done, &exe, &dir);
                sc.spawn(move || {
                    let mut k = w;
                    while k < n_cases {
                        let bytes: Vec<u8> = (0..400).map(|i| (mix(&[seed, 0xC06, k as u64, i]) & 0xff) as u8).collect();
                        let mut t = Tape::new(&bytes);
                        if let Some((reg, spec, _)) = make(&mut t, k % 5 == 4) {
                            if let Ok(base) = observe(&reg, &spec) {
                                let want = format!(
                                    "{:016x} {:016x} {:016x}",
                                    hash_str(&base.0),
                                    hash_str(&base.1),
                                    hash_str(&base.2)
                                );
                                let file = dir.join(format!("c06-case-{k}.json"));
                                let _ = std::fs::write(&file, case_json(&reg, &spec).to_string());
                                for _ in 0..n_proc {
                                    let out = std::process::Command::new(exe).arg("gen-once").arg(&file).output();
                                    match out {
                                        Ok(o) => {
                                            let got = String::from_utf8_lossy(&o.stdout).trim().to_string();
                                            if got != want {
                                                results.lock().unwrap().push(
                                                    Failure::new(format!(
                                                        "a fresh process observes `{got}`, this process `{want}` (tokens / dedup / validation hashes)"
                                                    ))
                                                    .sig("c06:nondeterministic:across-processes")
                                                    .with(case_json(&reg, &spec)),
                                                );
                                            }
                                        }
                                        Err(e) => results.lock().unwrap().push(Failure::infra(format!("spawn: {e}"))),
                                    }
                                    done.fetch_add(1, std::sync::atomic::Ordering::Relaxed);
                                }
                                let _ = std::fs::remove_file(&file);
                            }
                        }
                        k += workers;
                    }
                });
            }
        });
        stats.count("fresh_process_trials", done.load(std::sync::atomic::Ordering::Relaxed));
        let mut r = results.into_inner().unwrap();
        if let Some(f) = r.pop() {
            return Err(f);
        }
        Ok(())
    }
}
