//! C13 Type descriptions are faithful to the registry and always terminate.

use crate::case::make_case;
use crate::engine::*;
use crate::gen::GenOpts;
use crate::lower::registry_json;
use crate::props::c12::{children, reach};
use crate::tape::{hash_str, mix, Tape};
use scale_info::{form::PortableForm, Field, PortableRegistry, Type, TypeDef, TypeDefPrimitive};
use scale_typegen_description::type_description;
use serde_json::json;
use std::collections::BTreeSet;

pub struct C13;

fn prim_name(p: &TypeDefPrimitive) -> &'static str {
    match p {
        TypeDefPrimitive::Bool => "bool",
        TypeDefPrimitive::Char => "char",
        TypeDefPrimitive::Str => "String",
        TypeDefPrimitive::U8 => "u8",
        TypeDefPrimitive::U16 => "u16",
        TypeDefPrimitive::U32 => "u32",
        TypeDefPrimitive::U64 => "u64",
        TypeDefPrimitive::U128 => "u128",
        TypeDefPrimitive::U256 => "u256",
        TypeDefPrimitive::I8 => "i8",
        TypeDefPrimitive::I16 => "i16",
        TypeDefPrimitive::I32 => "i32",
        TypeDefPrimitive::I64 => "i64",
        TypeDefPrimitive::I128 => "i128",
        TypeDefPrimitive::I256 => "i256",
    }
}

/// independent renderer of "name and generic arguments" (written from the property text)
fn name_of(reg: &PortableRegistry, id: u32) -> String {
    let ty = reg.resolve(id).expect("id exists");
    match &ty.type_def {
        TypeDef::Sequence(s) => format!("Vec<{}>", name_of(reg, s.type_param.id)),
        TypeDef::Array(a) => format!("[{};{}]", name_of(reg, a.type_param.id), a.len),
        TypeDef::Tuple(t) => {
            let parts: Vec<String> = t.fields.iter().map(|f| name_of(reg, f.id)).collect();
            if parts.len() == 1 {
                format!("({},)", parts[0])
            } else {
                format!("({})", parts.join(","))
            }
        }
        TypeDef::Primitive(p) => prim_name(p).to_string(),
        TypeDef::Compact(c) => format!("Compact<{}>", name_of(reg, c.type_param.id)),
        TypeDef::BitSequence(_) => "BitSequence".to_string(),
        TypeDef::Composite(_) | TypeDef::Variant(_) => {
            let ident = ty.path.segments.last().cloned().unwrap_or_else(|| "_".to_string());
            let params: Vec<String> = ty
                .type_params
                .iter()
                .map(|p| match p.ty {
                    Some(t) => name_of(reg, t.id),
                    None => "_".to_string(),
                })
                .collect();
            if params.is_empty() {
                ident
            } else {
                format!("{ident}<{}>", params.join(","))
            }
        }
    }
}

struct Matcher<'a> {
    reg: &'a PortableRegistry,
    s: &'a [u8],
    expanded: BTreeSet<u32>,
    named_refs: u64,
}

impl<'a> Matcher<'a> {
    fn lit(&self, pos: usize, l: &str) -> Result<usize, String> {
        if self.s[pos.min(self.s.len())..].starts_with(l.as_bytes()) {
            Ok(pos + l.len())
        } else {
            let got: String = String::from_utf8_lossy(&self.s[pos.min(self.s.len())..(pos + 40).min(self.s.len())]).to_string();
            Err(format!("at byte {pos}: expected `{l}`, found `{got}`"))
        }
    }

    fn fields(&mut self, fs: &[Field<PortableForm>], pos: usize) -> Result<usize, String> {
        if fs.is_empty() {
            return self.lit(pos, "()");
        }
        let named = fs[0].name.is_some();
        let mut p = self.lit(pos, if named { "{" } else { "(" })?;
        for (i, f) in fs.iter().enumerate() {
            if i > 0 {
                p = self.lit(p, ",")?;
            }
            if let Some(n) = &f.name {
                p = self.lit(p, &format!("{n}: "))?;
            }
            let boxed = f.type_name.as_deref().map(|n| n.contains("Box<")).unwrap_or(false);
            if boxed {
                p = self.lit(p, "Box<")?;
            }
            p = self.ty(f.ty.id, p)?;
            if boxed {
                p = self.lit(p, ">")?;
            }
        }
        self.lit(p, if named { "}" } else { ")" })
    }

    fn ty(&mut self, id: u32, pos: usize) -> Result<usize, String> {
        let ty: &Type<PortableForm> = self.reg.resolve(id).ok_or(format!("no type {id}"))?;
        match &ty.type_def {
            TypeDef::Composite(_) | TypeDef::Variant(_) if !ty.path.segments.is_empty() => {
                let name = name_of(self.reg, id);
                let kw = if matches!(ty.type_def, TypeDef::Composite(_)) { "struct " } else { "enum " };
                if let Ok(p) = self.lit(pos, &format!("{kw}{name}")) {
                    // written out in full
                    self.expanded.insert(id);
                    match &ty.type_def {
                        TypeDef::Composite(c) => self.fields(&c.fields, p),
                        TypeDef::Variant(v) => {
                            let mut p = self.lit(p, "{")?;
                            for (i, var) in v.variants.iter().enumerate() {
                                if i > 0 {
                                    p = self.lit(p, ",")?;
                                }
                                p = self.lit(p, &var.name)?;
                                if !var.fields.is_empty() {
                                    p = self.fields(&var.fields, p)?;
                                }
                            }
                            self.lit(p, "}")
                        }
                        _ => unreachable!(),
                    }
                } else {
                    // referred to by name and generic arguments
                    self.named_refs += 1;
                    self.lit(pos, &name).map_err(|e| format!("{e} (neither `{kw}{name}` + body nor the bare name)"))
                }
            }
            TypeDef::Composite(c) => self.fields(&c.fields, self.lit(pos, "struct ")?),
            TypeDef::Variant(_) => Err("enum without a path".into()),
            TypeDef::Sequence(s) => {
                let p = self.lit(pos, "Vec<")?;
                let p = self.ty(s.type_param.id, p)?;
                self.lit(p, ">")
            }
            TypeDef::Array(a) => {
                let p = self.lit(pos, "[")?;
                let p = self.ty(a.type_param.id, p)?;
                self.lit(p, &format!("; {}]", a.len))
            }
            TypeDef::Tuple(t) => {
                let mut p = self.lit(pos, "(")?;
                for (i, f) in t.fields.iter().enumerate() {
                    if i > 0 {
                        p = self.lit(p, ",")?;
                    }
                    p = self.ty(f.id, p)?;
                }
                if t.fields.len() == 1 {
                    p = self.lit(p, ",")?;
                }
                self.lit(p, ")")
            }
            TypeDef::Primitive(pr) => self.lit(pos, prim_name(pr)),
            TypeDef::Compact(c) => {
                let p = self.lit(pos, "Compact<")?;
                let p = self.ty(c.type_param.id, p)?;
                self.lit(p, ">")
            }
            TypeDef::BitSequence(b) => {
                let p = self.lit(pos, "BitSequence(")?;
                let p = self.ty(b.bit_order_type.id, p)?;
                let p = self.lit(p, ", ")?;
                let p = self.ty(b.bit_store_type.id, p)?;
                self.lit(p, ")")
            }
        }
    }
}

/// ids of structs/enums reachable from `id` through fields and element types (and bit order/store)
fn reachable_named(reg: &PortableRegistry, id: u32) -> BTreeSet<u32> {
    let mut seen = BTreeSet::new();
    let mut stack = vec![id];
    while let Some(i) = stack.pop() {
        if !seen.insert(i) {
            continue;
        }
        stack.extend(children(reg, i));
        if let Some(TypeDef::BitSequence(b)) = reg.resolve(i).map(|t| &t.type_def) {
            stack.push(b.bit_order_type.id);
            stack.push(b.bit_store_type.id);
        }
    }
    seen.into_iter()
        .filter(|i| {
            reg.resolve(*i)
                .map(|t| matches!(t.type_def, TypeDef::Composite(_) | TypeDef::Variant(_)) && !t.path.segments.is_empty())
                .unwrap_or(false)
        })
        .collect()
}

fn strip_ws(s: &str) -> String {
    s.chars().filter(|c| !c.is_whitespace()).collect()
}

pub fn description_oracle(reg: &PortableRegistry, id: u32, stats: &mut Stats) -> Result<(u64, usize), (String, String)> {
    let plain = guard(|| type_description(id, reg, false))
        .map_err(|p| ("c13:panic".to_string(), format!("type_description({id}) panicked: {p}")))?
        .map_err(|e| ("c13:error".to_string(), format!("type_description({id}) failed: {e}")))?;
    let formatted = guard(|| type_description(id, reg, true))
        .map_err(|p| ("c13:panic".to_string(), format!("type_description({id}, formatted) panicked: {p}")))?
        .map_err(|e| ("c13:error".to_string(), format!("type_description({id}, formatted) failed: {e}")))?;
    let mut m = Matcher {
        reg,
        s: plain.as_bytes(),
        expanded: BTreeSet::new(),
        named_refs: 0,
    };
    match m.ty(id, 0) {
        Ok(end) => {
            if end != plain.len() {
                return Err((
                    "c13:unfaithful".into(),
                    format!("description of {id} has trailing text after byte {end}: `{plain}`"),
                ));
            }
        }
        Err(e) => return Err(("c13:unfaithful".into(), format!("description of {id} does not match the registry: {e} :: `{plain}`"))),
    }
    let need = reachable_named(reg, id);
    for n in &need {
        if !m.expanded.contains(n) {
            return Err((
                "c13:not-expanded".into(),
                format!(
                    "description of {id} never writes out reachable type {n} ({}) in full: `{plain}`",
                    name_of(reg, *n)
                ),
            ));
        }
    }
    if strip_ws(&formatted) != strip_ws(&plain) {
        return Err((
            "c13:format-differs".into(),
            format!("formatted description of {id} differs from the unformatted one by more than whitespace"),
        ));
    }
    // (C15 d) every description the crate produces goes through the formatter oracle as well
    let compact = strip_ws(&plain);
    let mut scratch = Stats::default();
    stats.count("descriptions_through_formatter_oracle", 1);
    crate::props::c15::check_string(&compact, &mut scratch, true, false)
        .map_err(|f| ("c13:formatter".to_string(), format!("formatter oracle on the description of {id}: {}", f.msg)))?;
    Ok((m.named_refs, need.len()))
}

impl Property for C13 {
    fn id(&self) -> &'static str {
        "C13"
    }
    fn case_deadline_s(&self) -> Option<u64> {
        // the statement claims termination; ordinary cases take milliseconds
        Some(60)
    }
    fn rule(&self) -> String {
        "tape -> program (all strata: mutual recursion through containers and generic arguments, repeated unnamed types, skipped parameters, \
         bit sequences, 1-tuples, Box fields, empty enums, unit structs, U256/I256) -> registry; for EVERY id: type_description unformatted and \
         formatted under catch_unwind; the unformatted text is read by a lockstep matcher against the registry (at a struct/enum position either \
         `struct|enum Name<args>` + full body or just `Name<args>` from an independent name renderer; bodies, Vec, arrays with length, tuples \
         with the 1-tuple comma, Compact, BitSequence(order, store), primitives, field-level Box) and must be consumed exactly; every struct/enum \
         reachable through fields and element types must have been written out in full at least once; formatted == unformatted up to \
         whitespace; the whitespace-free text also passes the C15 formatter oracle. Also every id of the full Polkadot registry. \
         Non-trivial: id reaching >= 3 named types or lying on a cycle; distinct by hash of (registry, id)."
            .into()
    }
    fn strata(&self, tier: Tier) -> Vec<Stratum> {
        vec![
            Stratum::random("programs", tier.pick(20_000, 500_000), tier.pick(384, 768)),
            Stratum::exhaustive("polkadot_ids", crate::metadata::polkadot().types.len() as u64),
        ]
    }
    fn eval(&self, stratum: &str, input: Input, stats: &mut Stats) -> Result<(), Failure> {
        match (stratum, input) {
            ("programs", Input::Tape(bytes)) => {
                let mut t = Tape::new(bytes);
                let mut opts = GenOpts::full();
                opts.manual_prims = true;
                let Some(case) = make_case(&mut t, &opts) else {
                    stats.count("discard_too_large", 1);
                    return Ok(());
                };
                let reg = &case.low.registry;
                let text = case.gen.prog.to_text();
                let reg_hash = hash_str(&registry_json(reg).to_string());
                for ty in &reg.types {
                    match description_oracle(reg, ty.id, stats) {
                        Err((sig, msg)) => {
                            return Err(Failure::new(msg)
                                .sig(sig)
                                .with(json!({"program": text, "id": ty.id, "registry": registry_json(reg)})))
                        }
                        Ok((refs, named)) => {
                            stats.count("ids_checked", 1);
                            if refs > 0 {
                                stats.label("id_with_name_only_reference");
                            }
                            let r = reach(reg, ty.id);
                            if r.cyclic {
                                stats.label("id_on_or_reaching_a_cycle");
                            }
                            if named >= 3 || r.cyclic {
                                stats.nontrivial(mix(&[reg_hash, ty.id as u64]));
                                stats.sample("described_id", || {
                                    json!({"program": text, "id": ty.id, "description": type_description(ty.id, reg, false).unwrap_or_default()})
                                });
                            }
                        }
                    }
                }
                Ok(())
            }
            ("polkadot_ids", Input::Index(i)) => {
                let reg = crate::metadata::polkadot();
                match description_oracle(reg, i as u32, stats) {
                    Err((sig, msg)) => Err(Failure::new(msg).sig(sig).with(json!({"polkadot_id": i}))),
                    Ok((_, named)) => {
                        stats.label("polkadot_id");
                        if named >= 3 {
                            stats.nontrivial_distinct_by_construction();
                        }
                        Ok(())
                    }
                }
            }
            _ => Err(Failure::infra(format!("unknown stratum {stratum}"))),
        }
    }
}
