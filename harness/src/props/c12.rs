//! C12 Example SCALE values are valid instances of their type.

use crate::case::make_case;
use crate::engine::*;
use crate::gen::GenOpts;
use crate::lower::registry_json;
use crate::tape::{hash_str, mix, Tape};
use scale_info::{PortableRegistry, TypeDef, TypeDefPrimitive};
use scale_typegen_description::scale_value_from_seed;
use serde_json::{json, Value};
use std::collections::{BTreeMap, BTreeSet};

pub struct C12;

pub fn children(reg: &PortableRegistry, id: u32) -> Vec<u32> {
    let Some(t) = reg.resolve(id) else { return vec![] };
    match &t.type_def {
        TypeDef::Composite(c) => c.fields.iter().map(|f| f.ty.id).collect(),
        TypeDef::Variant(v) => v.variants.iter().flat_map(|v| v.fields.iter().map(|f| f.ty.id)).collect(),
        TypeDef::Sequence(s) => vec![s.type_param.id],
        TypeDef::Array(a) => vec![a.type_param.id],
        TypeDef::Tuple(tu) => tu.fields.iter().map(|f| f.id).collect(),
        TypeDef::Compact(c) => vec![c.type_param.id],
        TypeDef::Primitive(_) | TypeDef::BitSequence(_) => vec![],
    }
}

/// upper bound on the number of leaves of an example for `id` (sequences get 2 elements, arrays
/// `len`); used to keep generated cases small - example size is multiplicative in array lengths
pub fn example_weight(reg: &PortableRegistry, id: u32) -> u64 {
    fn w(reg: &PortableRegistry, id: u32, stack: &mut Vec<u32>, memo: &mut BTreeMap<u32, u64>) -> u64 {
        if let Some(v) = memo.get(&id) {
            return *v;
        }
        if stack.contains(&id) {
            return 1;
        }
        stack.push(id);
        let cap = 1u64 << 40;
        let r = match reg.resolve(id).map(|t| &t.type_def) {
            Some(TypeDef::Composite(c)) => c.fields.iter().map(|f| w(reg, f.ty.id, stack, memo)).fold(1u64, |a, b| a.saturating_add(b)),
            Some(TypeDef::Variant(v)) => v
                .variants
                .iter()
                .map(|v| v.fields.iter().map(|f| w(reg, f.ty.id, stack, memo)).fold(1u64, |a, b| a.saturating_add(b)))
                .max()
                .unwrap_or(1),
            Some(TypeDef::Sequence(s)) => 2u64.saturating_mul(w(reg, s.type_param.id, stack, memo)),
            Some(TypeDef::Array(a)) => (a.len as u64).max(1).saturating_mul(w(reg, a.type_param.id, stack, memo)),
            Some(TypeDef::Tuple(t)) => t.fields.iter().map(|f| w(reg, f.id, stack, memo)).fold(1u64, |a, b| a.saturating_add(b)),
            Some(TypeDef::Compact(c)) => w(reg, c.type_param.id, stack, memo),
            _ => 1,
        }
        .min(cap);
        stack.pop();
        memo.insert(id, r);
        r
    }
    w(reg, id, &mut vec![], &mut BTreeMap::new())
}

pub const MAX_EXAMPLE_WEIGHT: u64 = 5_000;

#[derive(Default, Clone)]
pub struct Reach {
    pub ids: BTreeSet<u32>,
    pub cyclic: bool,
    pub empty_enum: bool,
    pub has_char: bool,
    pub has_enum: bool,
    pub has_seq: bool,
    pub bad_compact: bool,
    pub has_bits: bool,
    pub has_256: bool,
    pub has_i256: bool,
    pub named: usize,
}

/// what is reachable from `id` through fields and element types
pub fn reach(reg: &PortableRegistry, id: u32) -> Reach {
    let mut r = Reach::default();
    // 0 = in progress, 1 = done
    let mut state: BTreeMap<u32, u8> = BTreeMap::new();
    fn dfs(reg: &PortableRegistry, id: u32, state: &mut BTreeMap<u32, u8>, r: &mut Reach) {
        match state.get(&id) {
            Some(0) => {
                r.cyclic = true;
                return;
            }
            Some(_) => return,
            None => {}
        }
        state.insert(id, 0);
        r.ids.insert(id);
        if let Some(t) = reg.resolve(id) {
            if !t.path.segments.is_empty() {
                r.named += 1;
            }
            match &t.type_def {
                TypeDef::Variant(v) => {
                    r.has_enum = true;
                    if v.variants.is_empty() {
                        r.empty_enum = true;
                    }
                }
                TypeDef::Sequence(_) => r.has_seq = true,
                TypeDef::Primitive(TypeDefPrimitive::Char) => r.has_char = true,
                TypeDef::Primitive(TypeDefPrimitive::U256) => r.has_256 = true,
                TypeDef::Primitive(TypeDefPrimitive::I256) => {
                    r.has_256 = true;
                    r.has_i256 = true;
                }
                TypeDef::BitSequence(_) => r.has_bits = true,
                TypeDef::Compact(c) => {
                    // compact wraps unsigned integers or single-field wrappers of them
                    let mut cur = c.type_param.id;
                    let mut ok = false;
                    for _ in 0..8 {
                        match reg.resolve(cur).map(|t| &t.type_def) {
                            Some(TypeDef::Primitive(
                                TypeDefPrimitive::U8
                                | TypeDefPrimitive::U16
                                | TypeDefPrimitive::U32
                                | TypeDefPrimitive::U64
                                | TypeDefPrimitive::U128,
                            )) => {
                                ok = true;
                                break;
                            }
                            Some(TypeDef::Composite(c)) if c.fields.len() == 1 => cur = c.fields[0].ty.id,
                            _ => break,
                        }
                    }
                    if !ok {
                        r.bad_compact = true;
                    }
                }
                _ => {}
            }
        }
        for c in children(reg, id) {
            dfs(reg, c, state, r);
        }
        state.insert(id, 1);
    }
    dfs(reg, id, &mut state, &mut r);
    r
}

/// the oracle for one (id, seed). Ok(true) if a value was returned.
pub fn value_oracle(reg: &PortableRegistry, id: u32, seed: u64, rch: &Reach, decoded: &dyn Fn() -> Value) -> Result<bool, Failure> {
    let fail = |sig: &str, msg: String| Failure::new(msg).sig(sig).with(decoded());
    let r1 = guard(|| scale_value_from_seed(id, reg, seed))
        .map_err(|p| fail("c12:panic", format!("scale_value_from_seed({id}, seed {seed}) panicked: {p}")))?;
    let r2 = guard(|| scale_value_from_seed(id, reg, seed))
        .map_err(|p| fail("c12:panic", format!("second call panicked: {p}")))?;
    match (&r1, &r2) {
        (Ok(a), Ok(b)) => {
            if a != b {
                return Err(fail("c12:seed-nondeterministic", format!("id {id} seed {seed}: two calls return different values: {a:?} vs {b:?}")));
            }
        }
        (Err(_), Err(_)) => {}
        _ => return Err(fail("c12:seed-nondeterministic", format!("id {id} seed {seed}: one call returns a value, the other an error"))),
    }
    let v = match r1 {
        Ok(v) => v,
        Err(e) => {
            if !rch.cyclic && !rch.empty_enum {
                return Err(fail(
                    "c12:no-value-for-finite-type",
                    format!("id {id} seed {seed}: no value although the reachable types contain no cycle and no empty enum: {e}"),
                ));
            }
            return Ok(false);
        }
    };
    let mut bytes = vec![];
    let enc = guard(|| scale_value::scale::encode_as_type(&v, id, reg, &mut bytes))
        .map_err(|p| fail("c12:panic", format!("encoding the example panicked: {p}")))?;
    if let Err(e) = enc {
        let sig = if rch.has_char {
            "scale-encode:char-target-unsupported"
        } else if rch.has_256 {
            "scale-encode:256bit-target-unsupported"
        } else {
            "c12:example-does-not-encode"
        };
        return Err(fail(sig, format!("id {id} seed {seed}: example `{v:?}` does not encode against its own type: {e}")));
    }
    let mut cursor = &bytes[..];
    let dec = guard(|| scale_value::scale::decode_as_type(&mut cursor, id, reg))
        .map_err(|p| fail("c12:panic", format!("decoding panicked: {p}")))?;
    match dec {
        Err(e) => Err(fail("c12:bytes-do-not-decode", format!("id {id} seed {seed}: encoded example does not decode: {e}"))),
        Ok(back) => {
            if !cursor.is_empty() {
                return Err(fail("c12:trailing-bytes", format!("id {id} seed {seed}: {} bytes left after decoding", cursor.len())));
            }
            let back = back.remove_context();
            if back != v {
                return Err(fail(
                    "c12:round-trip",
                    format!("id {id} seed {seed}: example `{v:?}` decodes back to `{back:?}`"),
                ));
            }
            Ok(true)
        }
    }
}

fn probe_char() -> Result<(), Failure> {
    probe_prim(crate::program::Prim::Char)
}

fn probe_prim(prim: crate::program::Prim) -> Result<(), Failure> {
    use crate::program::*;
    let prog = Program {
        name_style: 0,
        defs: vec![Def {
            path: vec!["krate".into(), "HasChar".into()],
            params: vec![],
            docs: vec![],
            body: Body::Struct(Fields::Named(vec![FieldDef {
                name: Some("c".into()),
                ty: Ty::Prim(prim),
                compact_attr: false,
                docs: vec![],
            }])),
            config_inner: None,
        }],
        roots: vec![Ty::Def(0, vec![])],
    };
    let low = crate::lower::lower(&prog);
    let reg = &low.registry;
    let r = reach(reg, 0);
    let decoded = || json!({"program": prog.to_text()});
    value_oracle(reg, 0, 1, &r, &decoded).map(|_| ())
}

impl Property for C12 {
    fn id(&self) -> &'static str {
        "C12"
    }
    fn case_deadline_s(&self) -> Option<u64> {
        // the statement claims termination; ordinary cases take milliseconds
        Some(60)
    }
    fn rule(&self) -> String {
        "tape -> program (all strata incl. recursion, empty enums, bit sequences, compact wrappers, maps, 1-tuples, \
         Duration) -> registry; for EVERY type id and seeds {0, 1, u64::MAX, tape-random}: scale_value_from_seed under catch_unwind; a returned \
         value must encode against the same id with scale-value, the bytes must decode back consuming all input to an equal value (context \
         removed); two calls with one seed agree; if the types reachable from the id contain no cycle and no empty enum a value must be \
         returned. Also every id of the full Polkadot registry whose reachable types satisfy the compact clause. `char` and U256/I256 leaves are excluded \
         from the main search (known findings scale-encode:char-target-unsupported / 256bit-target-unsupported, covered by probes) and counted. Non-trivial: id whose \
         reachable set has >= 4 types and an enum or a sequence; distinct by hash of (registry, id)."
            .into()
    }
    fn assumptions(&self) -> Vec<String> {
        vec!["scale-value 0.18 (scale-encode 0.10 / scale-decode 0.16) is the reference encoder/decoder".into()]
    }
    fn probes(&self) -> Vec<Probe> {
        vec![Probe {
            signature: "scale-encode:char-target-unsupported",
            what: "an example containing Primitive::Char cannot be encoded against a char type by the pinned scale-encode 0.10 (WrongShape)",
            run: Box::new(probe_char),
        },
        Probe {
            signature: "scale-encode:256bit-target-unsupported",
            what: "an example for a U256/I256 primitive (no Rust type; manual type info only) cannot be encoded against its type by the pinned scale-encode 0.10",
            run: Box::new(|| {
                probe_prim(crate::program::Prim::I256)?;
                probe_prim(crate::program::Prim::U256)
            }),
        }]
    }
    fn strata(&self, tier: Tier) -> Vec<Stratum> {
        vec![
            Stratum::random("programs", tier.pick(20_000, 500_000), tier.pick(384, 768)),
            Stratum::exhaustive("polkadot_ids", crate::metadata::polkadot().types.len() as u64),
            // acyclic chains of 100..400 nested types of one kind: "a value is returned whenever ... no cycle"
            Stratum::exhaustive("deep_chains", 6 * 5),
        ]
    }
    fn eval(&self, stratum: &str, input: Input, stats: &mut Stats) -> Result<(), Failure> {
        match (stratum, input) {
            ("programs", Input::Tape(bytes)) => {
                let mut t = Tape::new(bytes);
                let mut opts = GenOpts::full();
                opts.chars = false;
                // outside the property's quantifier: compact wraps unsigned integers or wrappers of them
                opts.compact_unit = false;
                // U256/I256 leaves are excluded like char leaves (known finding, covered by its probe)
                opts.manual_prims = false;
                opts.lookalike = true;
                let Some(case) = make_case(&mut t, &opts) else {
                    stats.count("discard_too_large", 1);
                    return Ok(());
                };
                stats.count("excluded_known_char_and_256bit_leaves_by_construction", 1);
                let reg = &case.low.registry;
                let text = case.gen.prog.to_text();
                let rnd = t.u64();
                let reg_hash = hash_str(&registry_json(reg).to_string());
                for ty in &reg.types {
                    let rch = reach(reg, ty.id);
                    if rch.bad_compact {
                        stats.count("skipped_compact_clause", 1);
                        continue;
                    }
                    if example_weight(reg, ty.id) > MAX_EXAMPLE_WEIGHT {
                        stats.count("skipped_oversized_example", 1);
                        continue;
                    }
                    let mut any = false;
                    for seed in [0u64, 1, u64::MAX, rnd] {
                        let decoded = || json!({"program": text, "id": ty.id, "seed": seed, "registry": registry_json(reg)});
                        any |= value_oracle(reg, ty.id, seed, &rch, &decoded)?;
                    }
                    stats.count("ids_checked", 1);
                    if rch.cyclic {
                        stats.label(if any { "cyclic_id_with_value" } else { "cyclic_id_without_value" });
                    }
                    if rch.has_bits {
                        stats.label("bit_sequence_reachable");
                    }
                    if rch.has_256 {
                        stats.label("u256_reachable");
                    }
                    if rch.empty_enum {
                        stats.label("empty_enum_reachable");
                    }
                    if rch.ids.len() >= 4 && (rch.has_enum || rch.has_seq) {
                        stats.nontrivial(mix(&[reg_hash, ty.id as u64]));
                        stats.sample("program_id", || json!({"program": text, "id": ty.id}));
                    }
                }
                Ok(())
            }
            ("deep_chains", Input::Index(i)) => {
                use crate::program::*;
                let kind = i % 6;
                let depth = [100usize, 129, 160, 257, 400][(i / 6) as usize % 5];
                // a closed type nested `depth` times, or a chain of `depth` struct definitions
                let mut prog = Program { name_style: 0, defs: vec![], roots: vec![] };
                if kind == 5 {
                    for d in 0..depth {
                        let inner = if d + 1 < depth { Ty::Def(d + 1, vec![]) } else { Ty::Prim(Prim::U8) };
                        prog.defs.push(Def {
                            path: vec!["chain".into(), format!("L{d}")],
                            params: vec![],
                            docs: vec![],
                            body: Body::Struct(Fields::Named(vec![
                                FieldDef { name: Some("next".into()), ty: inner, compact_attr: false, docs: vec![] },
                                FieldDef { name: Some("tag".into()), ty: Ty::Prim(Prim::Bool), compact_attr: false, docs: vec![] },
                            ])),
                            config_inner: None,
                        });
                    }
                    prog.roots.push(Ty::Def(0, vec![]));
                } else {
                    let mut t = Ty::Prim(Prim::U16);
                    for _ in 0..depth {
                        t = match kind {
                            0 => Ty::Opt(Box::new(t)),
                            1 => Ty::Seq(SeqKind::Vec, Box::new(t)),
                            2 => Ty::Tuple(vec![t]),
                            3 => Ty::Array(1, Box::new(t)),
                            _ => Ty::Tuple(vec![Ty::Prim(Prim::Bool), t]),
                        };
                    }
                    prog.roots.push(t);
                }
                let low = crate::lower::lower(&prog);
                let reg = &low.registry;
                let root = low.root_ids[0];
                let rch = reach(reg, root);
                // a chain of sequences doubles the example at every level: same exclusion as in the main search
                if example_weight(reg, root) > MAX_EXAMPLE_WEIGHT {
                    stats.count("skipped_oversized_example", 1);
                    return Ok(());
                }
                for seed in [0u64, 1, u64::MAX, mix(&[i, 12])] {
                    let decoded = || json!({"deep_chain_kind": kind, "depth": depth, "seed": seed});
                    value_oracle(reg, root, seed, &rch, &decoded)?;
                }
                stats.label("deep_chain");
                stats.nontrivial_distinct_by_construction();
                Ok(())
            }
            ("polkadot_ids", Input::Index(i)) => {
                let reg = crate::metadata::polkadot();
                let id = i as u32;
                let rch = reach(reg, id);
                if rch.bad_compact {
                    stats.count("skipped_compact_clause", 1);
                    return Ok(());
                }
                if rch.has_char {
                    stats.count("excluded_known_char_leaves", 1);
                    return Ok(());
                }
                let n_seeds: u64 = if std::env::var("VERIF_TIER").map(|v| v == "thorough").unwrap_or(false) { 32 } else { 4 };
                for k in 0..n_seeds {
                    let seed = if k < 3 { [0u64, 1, u64::MAX][k as usize] } else { mix(&[k, i]) };
                    let decoded = || json!({"polkadot_id": id, "seed": seed});
                    value_oracle(reg, id, seed, &rch, &decoded)?;
                }
                stats.label("polkadot_id");
                if rch.ids.len() >= 4 && (rch.has_enum || rch.has_seq) {
                    stats.nontrivial_distinct_by_construction();
                }
                Ok(())
            }
            _ => Err(Failure::infra(format!("unknown stratum {stratum}"))),
        }
    }
}
