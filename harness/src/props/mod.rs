pub mod c15;

use crate::engine::Property;

pub fn by_id(id: &str) -> Option<Box<dyn Property>> {
    Some(match id {
        "C15" => Box::new(c15::C15),
        _ => return None,
    })
}

/// auxiliary subcommands used by some checks (fresh-process trials etc.)
pub fn subcommand(_args: &[String]) -> Option<i32> {
    None
}
