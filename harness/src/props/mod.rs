pub mod c01;
pub mod c02;
pub mod c03;
pub mod c04;
pub mod c05;
pub mod c06;
pub mod c07;
pub mod c08;
pub mod c09;
pub mod c10;
pub mod c11;
pub mod c12;
pub mod c13;
pub mod c14;
pub mod c15;
pub mod c16;
pub mod c17;
pub mod c18;

use crate::engine::Property;

pub fn by_id(id: &str) -> Option<Box<dyn Property>> {
    Some(match id {
        "C01" => Box::new(c01::C01),
        "C02" => Box::new(c02::C02),
        "C03" => Box::new(c03::C03),
        "C04" => Box::new(c04::C04),
        "C05" => Box::new(c05::C05),
        "C06" => Box::new(c06::C06),
        "C07" => Box::new(c07::C07),
        "C08" => Box::new(c08::C08),
        "C09" => Box::new(c09::C09),
        "C10" => Box::new(c10::C10),
        "C11" => Box::new(c11::C11),
        "C12" => Box::new(c12::C12),
        "C13" => Box::new(c13::C13),
        "C14" => Box::new(c14::C14),
        "C15" => Box::new(c15::C15),
        "C16" => Box::new(c16::C16),
        "C17" => Box::new(c17::C17),
        "C18" => Box::new(c18::C18),
        _ => return None,
    })
}

/// auxiliary subcommands used by some checks (fresh-process trials etc.)
pub fn subcommand(args: &[String]) -> Option<i32> {
    match args[0].as_str() {
        "gen-once" => Some(c06::gen_once(&args[1])),
        "selfcheck" => {
            let rounds = args.get(1).and_then(|s| s.parse().ok()).unwrap_or(50);
            match crate::realcorpus::self_check(1, rounds) {
                Ok(()) => {
                    println!("self-check ok ({rounds} rounds)");
                    Some(0)
                }
                Err(e) => {
                    eprintln!("{e}");
                    Some(2)
                }
            }
        }
        "polkadot-stats" => {
            use scale_typegen::typegen::ir::ToTokensWithSettings;
            let mut reg = crate::metadata::polkadot().clone();
            let before: Vec<String> = reg.types.iter().map(|t| t.ty.path.segments.join("::")).collect();
            let spec = crate::settings::SettingsSpec::default();
            let settings = spec.build();
            let direct = scale_typegen::TypeGenerator::new(&reg, &settings).generate_types_mod();
            println!("direct generation: {}", match &direct { Ok(_) => "ok".to_string(), Err(e) => format!("{e}").chars().take(120).collect() });
            scale_typegen::utils::ensure_unique_type_paths(&mut reg).unwrap();
            let mut renamed = vec![];
            for (i, t) in reg.types.iter().enumerate() {
                let p = t.ty.path.segments.join("::");
                if p != before[i] {
                    renamed.push(format!("{} -> {}", before[i], p));
                }
            }
            println!("types {} renamed {}", reg.types.len(), renamed.len());
            for r in &renamed {
                println!("  {r}");
            }
            let out = scale_typegen::TypeGenerator::new(&reg, &settings).generate_types_mod();
            match out {
                Ok(m) => {
                    let s = m.to_token_stream(&settings).to_string();
                    println!("after dedup: ok, {} bytes, hash {:016x}", s.len(), crate::tape::hash_str(&s));
                }
                Err(e) => println!("after dedup: {e}"),
            }
            Some(0)
        }
        "rustc-polkadot" => {
            let t0 = std::time::Instant::now();
            match crate::rustc_tier::polkadot_case().and_then(|c| crate::rustc_tier::run_batch("polkadot", &[c], false)) {
                Ok(_) => println!("polkadot module compiles, {:?}", t0.elapsed()),
                Err(f) => println!("failed: {} [{}]", f.msg.chars().take(3000).collect::<String>(), f.signature),
            }
            Some(0)
        }
        "rustc-smoke" => {
            let n: usize = args.get(1).and_then(|s| s.parse().ok()).unwrap_or(20);
            let cf = args.get(2).map(|s| s == "cf").unwrap_or(true);
            let t0 = std::time::Instant::now();
            let (cases, counters) = crate::rustc_tier::make_cases(5, 1, n, cf, if cf { 4 } else { 0 });
            println!("made {} cases in {:?}: {:?}", cases.len(), t0.elapsed(), counters.iter().filter(|(k, _)| !k.starts_with("label")).collect::<Vec<_>>());
            match crate::rustc_tier::run_batch("smoke", &cases, cf) {
                Ok(n) => println!("batch ok, {n} byte checks, {:?}", t0.elapsed()),
                Err(f) => println!("batch failed: {} [{}]\n{}", f.msg, f.signature, serde_json::to_string_pretty(&f.decoded).unwrap_or_default().chars().take(3000).collect::<String>()),
            }
            Some(0)
        }
        "rustc-batch" => {
            // rustc-batch <stream-hex e.g. C01> <seed> <first batch> <last batch> <size> <encodings> [standalone]
            let base = u64::from_str_radix(&args[1], 16).unwrap_or(0xC01);
            let seed: u64 = args[2].parse().unwrap_or(0);
            let (b0, b1): (u64, u64) = (args[3].parse().unwrap_or(0), args[4].parse().unwrap_or(0));
            let size: usize = args[5].parse().unwrap_or(60);
            let encs: usize = args[6].parse().unwrap_or(4);
            let standalone = args.get(7).map(|s| s == "standalone").unwrap_or(false);
            for b in b0..=b1 {
                let (cases, _) = crate::rustc_tier::make_cases_ext(seed, base + b, size, !standalone, encs, standalone);
                match crate::rustc_tier::run_batch(&format!("dbg-{b}"), &cases, true) {
                    Ok(n) => println!("batch {b} ok, {n} byte checks"),
                    Err(f) => println!("batch {b} failed: {} [{}]", f.msg.chars().take(600).collect::<String>(), f.signature),
                }
            }
            Some(0)
        }
        "show-tape" => {
            // show-tape <hex> [plain]: print the program a tape decodes to
            let bytes = crate::tape::unhex(&args[1]).unwrap_or_default();
            let mut t = crate::tape::Tape::new(&bytes);
            let mut opts = if args.get(2).map(|s| s == "plain").unwrap_or(false) { crate::gen::GenOpts::plain() } else { crate::gen::GenOpts::full() };
            if args.get(2).map(|s| s == "nochar").unwrap_or(false) {
                opts.chars = false;
            }
            if let Some(c) = crate::case::make_case(&mut t, &opts) {
                println!("{}\ntypes: {}", c.gen.prog.to_text(), c.low.registry.types.len());
            }
            Some(0)
        }
        "cfstats" => {
            use crate::tape::{mix, Tape};
            let mut hist = std::collections::BTreeMap::<String, u64>::new();
            let mut non = 0;
            let n = 4000;
            for i in 0..n {
                let bytes: Vec<u8> = (0..300).map(|k| (mix(&[i, k]) & 0xff) as u8).collect();
                let mut t = Tape::new(&bytes);
                if let Some(c) = crate::case::make_case(&mut t, &crate::gen::GenOpts::plain()) {
                    if !c.cf.all_cf {
                        non += 1;
                        let mut seen = std::collections::BTreeSet::new();
                        for r in &c.cf.reasons {
                            let k = r.split(": ").nth(1).unwrap_or("").chars().take(40).collect::<String>();
                            if seen.insert(k.clone()) {
                                *hist.entry(k).or_insert(0) += 1;
                            }
                        }
                        if non < 4 {
                            println!("{}\n{:?}\n", c.gen.prog.to_text(), c.cf.reasons);
                        }
                    }
                }
            }
            println!("non-CF {non}/{n}: {hist:#?}");
            Some(0)
        }
        _ => None,
    }
}
