pub mod c01;
pub mod c15;

use crate::engine::Property;

pub fn by_id(id: &str) -> Option<Box<dyn Property>> {
    Some(match id {
        "C01" => Box::new(c01::C01),
        "C15" => Box::new(c15::C15),
        _ => return None,
    })
}

/// auxiliary subcommands used by some checks (fresh-process trials etc.)
pub fn subcommand(args: &[String]) -> Option<i32> {
    match args[0].as_str() {
        "selfcheck" => {
            let rounds = args.get(1).and_then(|s| s.parse().ok()).unwrap_or(50);
            match crate::realcorpus::self_check(1, rounds) {
                Ok(()) => {
                    println!("self-check ok ({rounds} rounds)");
                    Some(0)
                }
                Err(e) => {
                    eprintln!("{e}");
                    Some(2)
                }
            }
        }
        "cfstats" => {
            use crate::tape::{mix, Tape};
            let mut hist = std::collections::BTreeMap::<String, u64>::new();
            let mut non = 0;
            let n = 4000;
            for i in 0..n {
                let bytes: Vec<u8> = (0..300).map(|k| (mix(&[i, k]) & 0xff) as u8).collect();
                let mut t = Tape::new(&bytes);
                if let Some(c) = crate::case::make_case(&mut t, &crate::gen::GenOpts::plain()) {
                    if !c.cf.all_cf {
                        non += 1;
                        let mut seen = std::collections::BTreeSet::new();
                        for r in &c.cf.reasons {
                            let k = r.split(": ").nth(1).unwrap_or("").chars().take(40).collect::<String>();
                            if seen.insert(k.clone()) {
                                *hist.entry(k).or_insert(0) += 1;
                            }
                        }
                        if non < 4 {
                            println!("{}\n{:?}\n", c.gen.prog.to_text(), c.cf.reasons);
                        }
                    }
                }
            }
            println!("non-CF {non}/{n}: {hist:#?}");
            Some(0)
        }
        _ => None,
    }
}
