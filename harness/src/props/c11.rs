//! C11 Settings validation is sound and complete.

use crate::case::make_case;
use crate::engine::*;
use crate::gen::GenOpts;
use crate::genmod::{nospace, tokens_nospace};
use crate::lower::registry_json;
use crate::settings::{parse_attr, user_paths, ATTR_POOL, DERIVE_POOL};
use crate::tape::{hash_str, Tape};
use scale_info::PortableRegistry;
use scale_typegen::typegen::settings::substitutes::absolute_path;
use scale_typegen::typegen::validation::{
    similar_type_paths_in_registry, validate_substitutes_and_derives_against_registry,
};
use scale_typegen::{DerivesRegistry, TypeSubstitutes};
use serde_json::json;
use std::collections::{BTreeMap, BTreeSet};

pub struct C11;

#[derive(Clone, Debug)]
struct Reg {
    path: String,
    derives: Vec<String>,
    attrs: Vec<String>,
    recursive: bool,
}

fn segs(path: &str) -> Vec<String> {
    let p: syn::Path = syn::parse_str(path).expect("path");
    p.segments.iter().map(|s| s.ident.to_string()).collect()
}

/// a path that may or may not be in the registry
fn gen_path(t: &mut Tape, paths: &[Vec<String>], labels: &mut BTreeSet<&'static str>) -> String {
    if paths.is_empty() {
        return "nowhere::Nothing".into();
    }
    let base = paths[t.choose(paths.len())].clone();
    match t.weighted(&[4, 2, 1, 1, 1, 1]) {
        0 => base.join("::"),
        1 => {
            labels.insert("unknown_mutated_last_segment");
            let mut b = base;
            let l = b.last_mut().unwrap();
            l.push_str("Zz");
            b.join("::")
        }
        2 => {
            labels.insert("unknown_wrong_module");
            let mut b = base;
            b[0] = format!("{}_other", b[0]);
            b.join("::")
        }
        3 => {
            labels.insert("unknown_extra_segment");
            let mut b = base;
            b.insert(1.min(b.len()), "extra".into());
            b.join("::")
        }
        4 => {
            labels.insert("known_with_generics_on_path");
            format!("{}<A, B>", base.join("::"))
        }
        _ => {
            if base.len() == 1 {
                // a single-segment (prelude) path has no prefix: a namespaced look-alike instead
                labels.insert("unknown_namespaced_prelude_name");
                format!("somewhere::{}", base[0])
            } else {
                labels.insert("unknown_prefix_only");
                base[..base.len() - 1].join("::")
            }
        }
    }
}

fn pick_some(t: &mut Tape, pool: &[&str], max: usize) -> Vec<String> {
    let n = t.choose(max + 1);
    let mut out = vec![];
    for _ in 0..n {
        let d = pool[t.choose(pool.len())].to_string();
        if !out.contains(&d) {
            out.push(d);
        }
    }
    out
}

impl Property for C11 {
    fn id(&self) -> &'static str {
        "C11"
    }
    fn rule(&self) -> String {
        "tape -> program -> registry; tape -> registrations (specific / recursive, derives and/or attributes, possibly empty) and substitutes \
         over known paths and unknown ones (mutated last segment, wrong module, extra segment, prefix only, generics on the path), several \
         unknown at once, the same path both specifically and recursively; similar-path queries built from registry identifiers under wrong \
         prefixes. Oracle: set model of validate_substitutes_and_derives_against_registry (Ok iff nothing unknown; each unknown path exactly \
         once with the union of its derives resp. attributes; unknown substitutes with their targets) and of similar_type_paths_in_registry \
         (registry paths with the same last identifier, registry order, duplicates kept). Non-trivial: >= 2 unknown paths or one path \
         registered both ways; distinct by hash of (registry, registrations)."
            .into()
    }
    fn strata(&self, tier: Tier) -> Vec<Stratum> {
        vec![Stratum::random("validation", tier.pick(400_000, 8_000_000), 384)]
    }
    fn eval(&self, _stratum: &str, input: Input, stats: &mut Stats) -> Result<(), Failure> {
        let Input::Tape(bytes) = input else {
            return Err(Failure::infra("C11 expects tapes"));
        };
        let mut t = Tape::new(bytes);
        let mut opts = GenOpts::full();
        opts.max_defs = 5;
        let Some(case) = make_case(&mut t, &opts) else {
            stats.count("discard_too_large", 1);
            return Ok(());
        };
        // sometimes a copy of a user type under another namespace (`zz_other::zq::Name`) is appended: two registry
        // paths with one final identifier in different modules, the later one closer to a query `wrong::zq::Name`
        let mut reg_owned: PortableRegistry = case.low.registry.clone();
        let mut twin: Option<String> = None;
        if t.chance(90) {
            let users: Vec<usize> = (0..reg_owned.types.len()).filter(|i| reg_owned.types[*i].ty.path.segments.len() >= 2).collect();
            if !users.is_empty() {
                let k = users[t.choose(users.len())];
                let mut copy = reg_owned.types[k].clone();
                let last = copy.ty.path.segments.last().cloned().unwrap_or_default();
                copy.ty.path = scale_info::Path::from_segments_unchecked(vec!["zz_other".to_string(), "zq".to_string(), last.clone()]);
                copy.id = reg_owned.types.len() as u32;
                reg_owned.types.push(copy);
                twin = Some(last);
            }
        }
        let reg: &PortableRegistry = &reg_owned;
        let mut labels_prelude = false;
        // every path of the registry, scale-info's single-segment prelude paths (Option, BTreeMap, Cow ...) included:
        // they are registry paths like any other (subxt substitutes BTreeMap)
        let mut paths = user_paths(reg);
        for ty in &reg.types {
            let p = &ty.ty.path.segments;
            if p.len() == 1 && !paths.contains(p) {
                paths.push(p.clone());
                labels_prelude = true;
            }
        }
        let reg_paths: BTreeSet<Vec<String>> = reg.types.iter().map(|t| t.ty.path.segments.clone()).collect();
        let mut labels = BTreeSet::new();
        if labels_prelude {
            labels.insert("registry_has_prelude_paths");
        }

        // registrations
        let n = t.weighted(&[1, 2, 3, 3, 2, 1]);
        let mut regs: Vec<Reg> = vec![];
        for _ in 0..n {
            let path = if !regs.is_empty() && t.chance(50) {
                labels.insert("same_path_again");
                regs[t.choose(regs.len())].path.clone()
            } else {
                gen_path(&mut t, &paths, &mut labels)
            };
            regs.push(Reg {
                path,
                derives: pick_some(&mut t, &DERIVE_POOL, 3),
                attrs: pick_some(&mut t, &ATTR_POOL, 2),
                recursive: t.flag(),
            });
        }
        let ns = t.weighted(&[3, 2, 2, 1]);
        let mut subs: Vec<(String, String)> = vec![];
        for i in 0..ns {
            let mut l2 = BTreeSet::new();
            let src = gen_path(&mut t, &paths, &mut l2);
            let src = src.split('<').next().unwrap().to_string();
            if src.is_empty() || subs.iter().any(|s| s.0 == src) {
                continue;
            }
            subs.push((src, format!("::target::T{i}")));
        }

        // build the real settings objects
        let mut derives = DerivesRegistry::new();
        for r in &regs {
            let tp: syn::TypePath = syn::parse_str(&r.path).expect("type path");
            // both calls are made even with empty lists (creates an empty entry)
            derives.add_derives_for(
                tp.clone(),
                r.derives.iter().map(|d| syn::parse_str::<syn::Path>(d).unwrap()),
                r.recursive,
            );
            if !r.attrs.is_empty() || t.flag() {
                derives.add_attributes_for(tp, r.attrs.iter().map(|a| parse_attr(a)), r.recursive);
            }
        }
        let mut substitutes = TypeSubstitutes::new();
        for (s, d) in &subs {
            substitutes
                .insert(
                    syn::parse_str(s).unwrap(),
                    absolute_path(syn::parse_str(d).unwrap()).unwrap(),
                )
                .map_err(|e| Failure::infra(format!("substitute insert failed: {e}")))?;
        }

        // model
        let mut want_d: BTreeMap<String, BTreeSet<String>> = BTreeMap::new();
        let mut want_a: BTreeMap<String, BTreeSet<String>> = BTreeMap::new();
        let mut unknown_paths = BTreeSet::new();
        for r in &regs {
            if reg_paths.contains(&segs(&r.path)) {
                continue;
            }
            let key = nospace(&r.path);
            if !r.derives.is_empty() {
                want_d.entry(key.clone()).or_default().extend(r.derives.iter().map(|d| nospace(d)));
                unknown_paths.insert(key.clone());
            }
            if !r.attrs.is_empty() {
                want_a.entry(key.clone()).or_default().extend(r.attrs.iter().map(|a| nospace(a)));
                unknown_paths.insert(key);
            }
        }
        let mut want_s: BTreeSet<(String, String)> = BTreeSet::new();
        for (s, d) in &subs {
            if !reg_paths.contains(&segs(s)) {
                want_s.insert((nospace(s), nospace(d)));
                unknown_paths.insert(format!("subst:{s}"));
            }
        }

        let decoded = || {
            json!({
                "program": case.gen.prog.to_text(),
                "registrations": regs.iter().map(|r| json!({"path": r.path, "derives": r.derives, "attrs": r.attrs, "recursive": r.recursive})).collect::<Vec<_>>(),
                "substitutes": subs,
                "registry": registry_json(reg),
            })
        };
        let res = guard(|| validate_substitutes_and_derives_against_registry(&substitutes, &derives, reg))
            .map_err(|p| Failure::new(format!("validation panicked: {p}")).sig("c11:panic").with(decoded()))?;
        let all_known = want_d.is_empty() && want_a.is_empty() && want_s.is_empty();
        match res {
            Ok(()) => {
                if !all_known {
                    return Err(Failure::new(format!(
                        "validation succeeded although unknown paths are registered: derives {want_d:?} attributes {want_a:?} substitutes {want_s:?}"
                    ))
                    .sig("c11:missed-unknown")
                    .with(decoded()));
                }
                stats.label("validation_ok");
            }
            Err(e) => {
                if all_known {
                    return Err(Failure::new(format!("validation failed although every path is known: {e}"))
                        .sig("c11:spurious-error")
                        .with(decoded()));
                }
                stats.label("validation_err");
                let to_map = |v: &Vec<(syn::Path, std::collections::HashSet<syn::Path>)>| -> Result<BTreeMap<String, BTreeSet<String>>, String> {
                    let mut m = BTreeMap::new();
                    for (p, set) in v {
                        let k = tokens_nospace(p);
                        if m.insert(k.clone(), set.iter().map(tokens_nospace).collect()).is_some() {
                            return Err(format!("path {k} listed twice"));
                        }
                    }
                    Ok(m)
                };
                let got_d = to_map(&e.derives_for_unknown_types)
                    .map_err(|m| Failure::new(m).sig("c11:duplicate-entry").with(decoded()))?;
                let mut got_a = BTreeMap::new();
                for (p, set) in &e.attributes_for_unknown_types {
                    let k = tokens_nospace(p);
                    if got_a
                        .insert(k.clone(), set.iter().map(tokens_nospace).collect::<BTreeSet<String>>())
                        .is_some()
                    {
                        return Err(Failure::new(format!("path {k} listed twice")).sig("c11:duplicate-entry").with(decoded()));
                    }
                }
                let got_s: BTreeSet<(String, String)> = e
                    .substitutes_for_unknown_types
                    .iter()
                    .map(|(a, b)| (tokens_nospace(a), tokens_nospace(b)))
                    .collect();
                if got_s.len() != e.substitutes_for_unknown_types.len() {
                    return Err(Failure::new("unknown substitute listed twice").sig("c11:duplicate-entry").with(decoded()));
                }
                if got_d != want_d {
                    return Err(Failure::new(format!("derives for unknown types: got {got_d:?}, model {want_d:?}"))
                        .sig("c11:derives-mismatch")
                        .with(decoded()));
                }
                if got_a != want_a {
                    return Err(Failure::new(format!("attributes for unknown types: got {got_a:?}, model {want_a:?}"))
                        .sig("c11:attributes-mismatch")
                        .with(decoded()));
                }
                if got_s != want_s {
                    return Err(Failure::new(format!("substitutes for unknown types: got {got_s:?}, model {want_s:?}"))
                        .sig("c11:substitutes-mismatch")
                        .with(decoded()));
                }
            }
        }

        // similar-path queries
        let nq = 1 + t.choose(3);
        for _ in 0..nq {
            if reg.types.is_empty() {
                break;
            }
            let pick = &reg.types[t.choose(reg.types.len())].ty.path.segments;
            let last = match pick.last() {
                Some(l) => l.clone(),
                None => "Unknown".to_string(),
            };
            let query = match (t.weighted(&[2, 2, 1, 2]), &twin) {
                (0, _) => format!("wrong::prefix::{last}"),
                (1, _) => last.clone(),
                (2, _) => format!("{last}Nope"),
                // shares two trailing segments with the appended twin, one with the original (which comes first)
                (_, Some(name)) => format!("wrong::zq::{name}"),
                (_, None) if pick.len() >= 2 => format!("wrong::{}", pick[1..].join("::")),
                _ => last.clone(),
            };
            let qp: syn::Path = syn::parse_str(&query).unwrap();
            let qlast = qp.segments.last().unwrap().ident.to_string();
            let want: Vec<String> = reg
                .types
                .iter()
                .filter(|t| t.ty.path.segments.last() == Some(&qlast))
                .map(|t| t.ty.path.segments.join("::"))
                .collect();
            let got = guard(|| similar_type_paths_in_registry(reg, &qp))
                .map_err(|p| Failure::new(format!("similar_type_paths_in_registry panicked: {p}")).sig("c11:panic").with(decoded()))?;
            let got: Vec<String> = got.iter().map(tokens_nospace).collect();
            if got != want {
                return Err(Failure::new(format!("similar paths for `{query}`: got {got:?}, model {want:?}"))
                    .sig("c11:similar-paths")
                    .with(decoded()));
            }
            if want.len() >= 2 {
                stats.label("similar_query_with_duplicates");
            }
        }

        let both_ways = regs
            .iter()
            .any(|a| regs.iter().any(|b| a.path == b.path && a.recursive != b.recursive));
        if unknown_paths.len() >= 2 || both_ways {
            stats.nontrivial(hash_str(&format!("{}{:?}{:?}", registry_json(reg), regs, subs)));
            for l in &labels {
                stats.label(l);
            }
            if both_ways {
                stats.label("same_path_specific_and_recursive");
            }
            stats.sample("validation_case", || {
                json!({"registrations": regs.iter().map(|r| json!({"path": r.path, "derives": r.derives, "attrs": r.attrs, "recursive": r.recursive})).collect::<Vec<_>>(), "substitutes": subs, "registry_paths": paths.iter().map(|p| p.join("::")).collect::<Vec<_>>()})
            });
        }
        Ok(())
    }
}
