//! C08 Derives and attributes reach exactly the right types.

use crate::case::*;
use crate::engine::*;
use crate::gen::GenOpts;
use crate::genmod::*;
use crate::lower::{permute_registry, registry_json};
use crate::props::c01::gen_perm;
use crate::props::c18::{is_boxed_field, is_uint_field};
use crate::settings::*;
use crate::tape::{hash_str, Tape};
use scale_info::{PortableRegistry, TypeDef};
use serde_json::json;
use std::collections::{BTreeMap, BTreeSet};

pub struct C08;

/// registry reachability (upper bound): paths of entries reachable from any entry with path `p`
fn registry_reach(reg: &PortableRegistry, p: &[String]) -> BTreeSet<Vec<String>> {
    let mut seen: BTreeSet<u32> = BTreeSet::new();
    let mut stack: Vec<u32> = reg.types.iter().filter(|t| t.ty.path.segments == p).map(|t| t.id).collect();
    while let Some(id) = stack.pop() {
        if !seen.insert(id) {
            continue;
        }
        let Some(t) = reg.resolve(id) else { continue };
        for tp in &t.type_params {
            if let Some(x) = tp.ty {
                stack.push(x.id);
            }
        }
        match &t.type_def {
            TypeDef::Composite(c) => stack.extend(c.fields.iter().map(|f| f.ty.id)),
            TypeDef::Variant(v) => stack.extend(v.variants.iter().flat_map(|v| v.fields.iter().map(|f| f.ty.id))),
            TypeDef::Sequence(s) => stack.push(s.type_param.id),
            TypeDef::Array(a) => stack.push(a.type_param.id),
            TypeDef::Tuple(tu) => stack.extend(tu.fields.iter().map(|f| f.id)),
            TypeDef::Compact(c) => stack.push(c.type_param.id),
            TypeDef::Primitive(_) => {}
            // bit order/store types: the property does not count them as mentioned types, so the
            // upper bound admits them and the lower bound does not demand them
            TypeDef::BitSequence(b) => {
                stack.push(b.bit_order_type.id);
                stack.push(b.bit_store_type.id);
            }
        }
    }
    seen.iter()
        .filter_map(|i| reg.resolve(*i))
        .filter(|t| t.path.segments.len() >= 2)
        .map(|t| t.path.segments.clone())
        .collect()
}

/// items mentioned in the field types of an emitted item (paths rooted at the types module)
fn mentioned(gm: &GMod, item: &GItem) -> BTreeSet<Vec<String>> {
    let mut out = BTreeSet::new();
    fn walk(t: &syn::Type, root: &str, out: &mut BTreeSet<Vec<String>>) {
        use syn::Type as T;
        match t {
            T::Paren(p) => walk(&p.elem, root, out),
            T::Group(p) => walk(&p.elem, root, out),
            T::Tuple(tt) => tt.elems.iter().for_each(|e| walk(e, root, out)),
            T::Array(a) => walk(&a.elem, root, out),
            T::Path(tp) => {
                let idents = path_idents(&tp.path);
                if tp.path.leading_colon.is_none() && idents.first().map(|s| s == root).unwrap_or(false) {
                    out.insert(idents);
                }
                for seg in &tp.path.segments {
                    if let syn::PathArguments::AngleBracketed(a) = &seg.arguments {
                        for g in &a.args {
                            if let syn::GenericArgument::Type(inner) = g {
                                walk(inner, root, out);
                            }
                        }
                    }
                }
            }
            _ => {}
        }
    }
    let mut each = |f: &GFields| f.list().iter().for_each(|fd| walk(&fd.ty, &gm.root, &mut out));
    match &item.kind {
        GKind::Struct(f) => each(f),
        GKind::Enum(vs) => vs.iter().for_each(|v| each(&v.fields)),
    }
    out
}

pub fn derive_oracle(reg: &PortableRegistry, spec: &SettingsSpec, out: &GenOut) -> Result<(usize, u32), String> {
    let gm = &out.gm;
    let global_d: BTreeSet<String> = spec.global_derives.iter().map(|d| nospace(d)).collect();
    let global_a: BTreeSet<String> = spec.global_attrs.iter().map(|a| nospace(a)).collect();
    let mut specific: BTreeMap<Vec<String>, (BTreeSet<String>, BTreeSet<String>)> = BTreeMap::new();
    // recursive registrations merged per path
    let mut recursive: BTreeMap<Vec<String>, (BTreeSet<String>, BTreeSet<String>)> = BTreeMap::new();
    for r in &spec.specific {
        let p: Vec<String> = r.path.split("::").map(|s| s.to_string()).collect();
        let e = if r.recursive { recursive.entry(p).or_default() } else { specific.entry(p).or_default() };
        e.0.extend(r.derives.iter().map(|d| nospace(d)));
        e.1.extend(r.attrs.iter().map(|a| nospace(a)));
    }
    let compact_as = spec.compact_as.as_ref().map(|c| nospace(c));
    let rel = |p: &Vec<String>| p[1..].to_vec();

    // lower bound: closure over the output, per recursive root
    let mut must: BTreeMap<Vec<String>, (BTreeSet<String>, BTreeSet<String>)> = BTreeMap::new();
    let mut max_reach = 0;
    for (p, (d, a)) in &recursive {
        let mut full = vec![gm.root.clone()];
        full.extend(p.iter().cloned());
        if !gm.items.contains_key(&full) {
            continue; // substituted or not a generated type
        }
        let mut closure: BTreeSet<Vec<String>> = BTreeSet::new();
        let mut stack = vec![full];
        while let Some(q) = stack.pop() {
            if !closure.insert(q.clone()) {
                continue;
            }
            if let Some(item) = gm.items.get(&q) {
                for m in mentioned(gm, item) {
                    if gm.items.contains_key(&m) {
                        stack.push(m);
                    }
                }
            }
        }
        max_reach = max_reach.max(closure.len());
        for q in closure {
            let e = must.entry(q).or_default();
            e.0.extend(d.iter().cloned());
            e.1.extend(a.iter().cloned());
        }
    }
    // upper bound: registry reachability per recursive root
    let upper: BTreeMap<Vec<String>, BTreeSet<Vec<String>>> = recursive.keys().map(|p| (p.clone(), registry_reach(reg, p))).collect();

    let mut compact_as_decisions = 0;
    for (path, item) in &gm.items {
        let at = path.join("::");
        let q = rel(path);
        let got_d: BTreeSet<String> = item.derives.iter().cloned().collect();
        let got_a: BTreeSet<String> = item.attrs.iter().cloned().collect();
        if got_d.len() != item.derives.len() || got_a.len() != item.attrs.len() {
            return Err(format!("{at}: duplicate derives or attributes"));
        }
        // what it must carry
        let mut need_d = global_d.clone();
        let mut need_a = global_a.clone();
        if let Some((d, a)) = specific.get(&q) {
            need_d.extend(d.iter().cloned());
            need_a.extend(a.iter().cloned());
        }
        if let Some((d, a)) = must.get(path) {
            need_d.extend(d.iter().cloned());
            need_a.extend(a.iter().cloned());
        }
        if let Some(m) = need_d.difference(&got_d).next() {
            return Err(format!("{at}: derive {m} is missing (has {got_d:?})"));
        }
        if let Some(m) = need_a.difference(&got_a).next() {
            return Err(format!("{at}: attribute {m} is missing (has {got_a:?})"));
        }
        // what it may carry
        let mut may_d = need_d.clone();
        let mut may_a = need_a.clone();
        for (p, (d, a)) in &recursive {
            if upper[p].contains(&q) {
                may_d.extend(d.iter().cloned());
                may_a.extend(a.iter().cloned());
            }
        }
        // CompactAs
        let kept = out.kept.get(&q).ok_or(format!("{at}: no kept id"))?;
        let kty = reg.resolve(*kept).ok_or("kept id missing")?;
        let mut ca_required = false;
        let mut ca_allowed = false;
        if let (Some(_), TypeDef::Composite(c)) = (&compact_as, &kty.type_def) {
            if c.fields.len() == 1 {
                let f = &c.fields[0];
                let is_param_typed = matches!(&item.kind, GKind::Struct(gf) if gf.list().first().map(|g| {
                    let mut ids = vec![]; bare_idents(&g.ty, &mut ids); !ids.is_empty() && item.generics.iter().any(|p| tokens_nospace(&g.ty) == *p)
                }).unwrap_or(false));
                if is_uint_field(reg, f) && !is_param_typed {
                    ca_allowed = true;
                    ca_required = !is_boxed_field(f);
                }
            }
        }
        if let Some(ca) = &compact_as {
            let has = got_d.contains(ca);
            if ca_required && !has {
                return Err(format!("{at}: single unsigned-integer field but CompactAs derive is missing"));
            }
            if has && !ca_allowed && !may_d.contains(ca) {
                return Err(format!("{at}: carries the CompactAs derive but is not a struct with exactly one unsigned integer field"));
            }
            if ca_allowed {
                may_d.insert(ca.clone());
                compact_as_decisions += 1;
            }
        }
        if let Some(x) = got_d.difference(&may_d).next() {
            return Err(format!("{at}: derive {x} is not explained by any global, specific or reachable recursive registration"));
        }
        if let Some(x) = got_a.difference(&may_a).next() {
            return Err(format!("{at}: attribute {x} is not explained by any global, specific or reachable recursive registration"));
        }
    }
    Ok((max_reach, compact_as_decisions))
}

/// Regression probe (seeded change C08b): CompactAs on a single-unsigned-field struct with an unused live
/// parameter, with and without codec attributes; (C08f) a type reachable from a recursive root only through a
/// type parameter.
fn probe_compact_as_and_phantom_reach() -> Result<(), Failure> {
    use crate::program::*;
    let un = |t: Ty| FieldDef { name: None, ty: t, compact_attr: false, docs: vec![] };
    let p = |n: &str| ParamDecl { name: n.into(), skipped: false, config: false, compactable: false, bitstore: false, bitorder: false };
    let def = |name: &str, params: Vec<ParamDecl>, f: Fields| Def { path: vec!["krate".into(), name.into()], params, docs: vec![], body: Body::Struct(f), config_inner: None };
    let prog = Program {
        name_style: 0,
        defs: vec![
            def("Amount", vec![p("T")], Fields::Unnamed(vec![un(Ty::Prim(Prim::U128))])),
            def("Unit", vec![], Fields::Unit),
            def("Tagged", vec![p("U")], Fields::Unnamed(vec![un(Ty::Prim(Prim::U32)), un(Ty::Phantom(Box::new(Ty::Param(0))))])),
            def("Root", vec![], Fields::Unnamed(vec![un(Ty::Def(0, vec![Ty::Prim(Prim::Bool)])), un(Ty::Def(2, vec![Ty::Def(1, vec![])]))])),
        ],
        roots: vec![Ty::Def(3, vec![])],
    };
    let low = crate::lower::lower(&prog);
    for codec in [true, false] {
        let mut spec = SettingsSpec::default();
        spec.codec = codec;
        spec.compact_as = Some(COMPACT_AS_PATH.into());
        spec.global_derives = vec!["Debug".into()];
        spec.specific = vec![PathReg { path: "krate::Root".into(), derives: vec!["Clone".into()], attrs: vec!["#[allow(dead_code)]".into()], recursive: true }];
        let text = prog.to_text();
        let out = match run_typegen(&low.registry, &spec) {
            GenResult::Ok(o) => o,
            _ => return Err(Failure::infra("probe registry does not generate")),
        };
        derive_oracle(&low.registry, &spec, &out)
            .map_err(|m| Failure::new(m).sig("regress:compact-as-and-phantom-reach").with(json!({"program": text, "settings": spec.to_json(), "tokens": out.tokens})))?;
    }
    Ok(())
}

impl Property for C08 {
    fn id(&self) -> &'static str {
        "C08"
    }
    fn probes(&self) -> Vec<Probe> {
        vec![Probe {
            signature: "regress:compact-as-and-phantom-reach",
            what: "Amount<T>(u128) with unused T and CompactAs configured, codec attributes on and off; Tagged<Unit> reachable from a recursive root through its phantom parameter only",
            run: Box::new(probe_compact_as_and_phantom_reach),
        }]
    }
    fn rule(&self) -> String {
        "tape -> program (cyclic graphs; tuples, arrays, compact, maps, generic arguments between types; several overlapping roots) -> registry \
         (random order) + settings with global, specific and recursive derive AND attribute registrations on registry paths (several recursive \
         roots, overlapping reach), compact-as path on/off, insert_codec_attributes on/off, bit-order types substituted; also Polkadot sub-registries. Oracle: per emitted item \
         a lower bound (global + specific + for each recursive root the closure over the OUTPUT: the root item and every item mentioned in the \
         fields of an item of the closure) and an upper bound (recursive sets only where some entry of that path is reachable in the REGISTRY from \
         an entry of the root path); CompactAs required for a struct with exactly one plain unsigned field <= 128 bits when configured, forbidden \
         otherwise (boxed integer either way). Non-trivial: a recursive registration whose output closure has >= 3 items, or a CompactAs \
         decision on a single-field struct; distinct by hash of (registry, settings)."
            .into()
    }
    fn strata(&self, tier: Tier) -> Vec<Stratum> {
        vec![
            Stratum::random("programs", tier.pick(25_000, 600_000), tier.pick(384, 768)),
            Stratum::random("polkadot_subregistries", tier.pick(300, 6_000), 160),
        ]
    }
    fn eval(&self, stratum: &str, input: Input, stats: &mut Stats) -> Result<(), Failure> {
        let Input::Tape(bytes) = input else {
            return Err(Failure::infra("C08 expects tapes"));
        };
        let mut t = Tape::new(bytes);
        let (reg, text) = if stratum == "polkadot_subregistries" {
            let (r, _) = crate::metadata::sub_registry(&mut t, 12);
            (r, "polkadot sub-registry".to_string())
        } else {
            let opts = GenOpts::plain();
            let Some(case) = make_case(&mut t, &opts) else {
                stats.count("discard_too_large", 1);
                return Ok(());
            };
            let r = if t.flag() {
                let perm = gen_perm(&mut t, case.low.registry.types.len());
                permute_registry(&case.low.registry, &perm)
            } else {
                case.low.registry.clone()
            };
            (r, case.gen.prog.to_text())
        };
        let mut spec = gen_settings(&mut t, &reg, &SettingsOpts::wire());
        // derives and attributes do not depend on whether codec attributes are inserted
        if t.chance(70) {
            spec.codec = false;
            stats.label("codec_attributes_off");
        }
        // more registrations, many of them recursive, derives and attributes
        let paths = user_paths(&reg);
        if !paths.is_empty() {
            for _ in 0..(1 + t.choose(4)) {
                let p = &paths[t.choose(paths.len())];
                let mut ds = vec![];
                for _ in 0..t.choose(3) {
                    ds.push(DERIVE_POOL[t.choose(DERIVE_POOL.len())].to_string());
                }
                let mut attrs = vec![];
                for _ in 0..t.choose(3) {
                    attrs.push(ATTR_POOL[t.choose(ATTR_POOL.len())].to_string());
                }
                spec.specific.push(PathReg {
                    path: p.join("::"),
                    derives: ds,
                    attrs,
                    recursive: t.chance(200),
                });
            }
        }
        let decoded = || json!({"source": text, "settings": spec.to_json(), "registry": registry_json(&reg)});
        let out = match run_typegen(&reg, &spec) {
            GenResult::Ok(o) => o,
            GenResult::Panic(p) => return Err(Failure::new(format!("panic: {p}")).sig("c08:panic").with(decoded())),
            _ => {
                stats.label("generation_not_ok");
                return Ok(());
            }
        };
        match derive_oracle(&reg, &spec, &out) {
            Err(m) => Err(Failure::new(m).sig("c08:derives").with(json!({"case": decoded(), "tokens": out.tokens}))),
            Ok((reach, ca)) => {
                if reach >= 3 {
                    stats.label("recursive_closure_ge_3_items");
                }
                if ca > 0 {
                    stats.label("compact_as_decision");
                }
                if reach >= 3 || ca > 0 {
                    stats.nontrivial(hash_str(&format!("{}{}", registry_json(&reg), spec.to_json())));
                    stats.sample(stratum, || json!({"source": text, "settings": spec.to_json()}));
                }
                Ok(())
            }
        }
    }
}
