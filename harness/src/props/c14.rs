//! C14 Rust value examples conform to the generated type definitions.

use crate::case::*;
use crate::engine::*;
use crate::gen::GenOpts;
use crate::genmod::*;
use crate::lower::registry_json;
use crate::props::c12::{example_weight, reach};
use crate::settings::{pick_root, SettingsSpec};
use crate::shape::is_phantom;
use crate::tape::{hash_str, mix, Tape};
use scale_info::{form::PortableForm, Field, PortableRegistry, TypeDef, TypeDefPrimitive};
use scale_typegen_description::rust_value_from_seed;
use serde_json::json;

pub struct C14;

struct Walker<'a> {
    reg: &'a PortableRegistry,
    out: &'a GenOut,
    settings: &'a scale_typegen::TypeGeneratorSettings,
    struct_literals: u32,
    prim_leaves: u32,
}

fn omit_generics(tokens: &str) -> String {
    // tokens as printed by to_string(): cut at the first `<`
    let t = match tokens.find('<') {
        Some(i) => &tokens[..i],
        None => tokens,
    };
    nospace(t)
}

fn expr_path(e: &syn::Expr) -> Option<String> {
    match e {
        syn::Expr::Path(p) if p.qself.is_none() => Some(tokens_nospace(&p.path)),
        _ => None,
    }
}

fn is_phantom_expr(e: &syn::Expr) -> bool {
    expr_path(e).map(|p| p == "::core::marker::PhantomData").unwrap_or(false)
}

impl<'a> Walker<'a> {
    fn type_path(&self, id: u32) -> Result<String, String> {
        match resolve_tokens(self.reg, self.settings, id) {
            Ok(Ok(t)) => Ok(omit_generics(&t)),
            Ok(Err(e)) => Err(format!("resolve_type_path({id}) failed: {e:?}")),
            Err(p) => Err(format!("resolve_type_path({id}) panicked: {p}")),
        }
    }

    /// the emitted item for a registry type, if it has one
    fn item_for(&self, id: u32) -> Option<&'a GItem> {
        let out: &'a GenOut = self.out;
        let ty = self.reg.resolve(id)?;
        if ty.path.segments.len() < 2 {
            return None;
        }
        let mut p = vec![out.gm.root.clone()];
        p.extend(ty.path.segments.iter().cloned());
        out.gm.items.get(&p)
    }

    /// expression fields (after the path) against registry fields and the item's field list
    fn field_list(
        &mut self,
        e: &syn::Expr,
        want_path: &str,
        fields: &[Field<PortableForm>],
        item_fields: Option<&GFields>,
        at: &str,
    ) -> Result<(), String> {
        // what the generated item has beyond the registry fields: the marker
        let marker = item_fields
            .map(|f| f.list().iter().any(|fd| is_phantom(&fd.ty)))
            .unwrap_or(false);
        let item_named = item_fields.map(|f| matches!(f, GFields::Named(_)));
        if fields.is_empty() && !marker {
            // unit
            return match expr_path(e) {
                Some(p) if p == want_path => Ok(()),
                _ => Err(format!("{at}: expected the unit value `{want_path}`, found `{}`", tokens_nospace(e))),
            };
        }
        let named = if fields.is_empty() {
            item_named.unwrap_or(false)
        } else {
            fields[0].name.is_some()
        };
        if named {
            let syn::Expr::Struct(s) = e else {
                return Err(format!("{at}: expected a struct literal `{want_path} {{..}}`, found `{}`", tokens_nospace(e)));
            };
            if tokens_nospace(&s.path) != want_path || s.qself.is_some() || s.rest.is_some() {
                return Err(format!("{at}: struct literal path `{}`, expected `{want_path}`", tokens_nospace(&s.path)));
            }
            self.struct_literals += 1;
            let mut want_names: Vec<String> = fields.iter().map(|f| f.name.clone().unwrap()).collect();
            if let (true, Some(GFields::Named(ifs))) = (marker, item_fields) {
                for f in ifs.iter().filter(|f| is_phantom(&f.ty)) {
                    want_names.push(f.name.clone().unwrap_or_default());
                }
            }
            let mut got_names: Vec<String> = s.fields.iter().map(|f| tokens_nospace(&f.member)).collect();
            if item_fields.is_none() && got_names.len() == want_names.len() + 1 && got_names.last().map(|n| n == "__ignore").unwrap_or(false) {
                // prelude type with named fields (Range): see above
                got_names.pop();
            }
            if got_names != want_names {
                return Err(format!("{at}: literal has fields {got_names:?}, the generated item has {want_names:?}"));
            }
            for (i, fv) in s.fields.iter().enumerate() {
                if i < fields.len() {
                    self.field_value(&fv.expr, &fields[i], &format!("{at}.{}", got_names[i]))?;
                } else if !is_phantom_expr(&fv.expr) {
                    return Err(format!("{at}: marker field initialised with `{}`", tokens_nospace(&fv.expr)));
                }
            }
            Ok(())
        } else {
            let syn::Expr::Call(c) = e else {
                return Err(format!("{at}: expected a tuple-struct literal `{want_path}(..)`, found `{}`", tokens_nospace(e)));
            };
            if expr_path(&c.func).as_deref() != Some(want_path) {
                return Err(format!("{at}: literal path `{}`, expected `{want_path}`", tokens_nospace(&c.func)));
            }
            self.struct_literals += 1;
            let want_n = fields.len() + if marker { 1 } else { 0 };
            // prelude types (Option, BTreeMap, ...) have no generated item: the property's arity clause is
            // about generated items, so a marker the example adds there is neither required nor rejected
            let lenient = item_fields.is_none() && c.args.len() == fields.len() + 1 && c.args.last().map(is_phantom_expr).unwrap_or(false);
            if c.args.len() != want_n && !lenient {
                return Err(format!("{at}: literal has {} members, the generated item has {want_n}", c.args.len()));
            }
            for (i, a) in c.args.iter().enumerate() {
                if i < fields.len() {
                    self.field_value(a, &fields[i], &format!("{at}.{i}"))?;
                } else if !is_phantom_expr(a) {
                    return Err(format!("{at}: marker member initialised with `{}`", tokens_nospace(a)));
                }
            }
            Ok(())
        }
    }

    fn field_value(&mut self, e: &syn::Expr, f: &Field<PortableForm>, at: &str) -> Result<(), String> {
        self.value(e, f.ty.id, at)
    }

    fn int_lit(&mut self, e: &syn::Expr, suffix: &str, signed: bool, at: &str) -> Result<(), String> {
        let inner = match e {
            syn::Expr::Unary(u) if signed && matches!(u.op, syn::UnOp::Neg(_)) => &*u.expr,
            syn::Expr::Group(g) => &*g.expr,
            other => other,
        };
        match inner {
            syn::Expr::Lit(syn::ExprLit {
                lit: syn::Lit::Int(i),
                ..
            }) if i.suffix() == suffix => {
                self.prim_leaves += 1;
                Ok(())
            }
            _ => Err(format!("{at}: expected a `{suffix}` literal, found `{}`", tokens_nospace(e))),
        }
    }

    /// Is the type the generator emits for this registry type `Copy`? Primitives except strings, and
    /// arrays, tuples and compact wrappers of such. Generated structs and enums are not (no settings of this
    /// check derive Copy), nor are vectors, strings and bit sequences.
    fn is_rust_copy(&self, id: u32, depth: usize) -> bool {
        if depth > 16 {
            return false;
        }
        let Some(ty) = self.reg.resolve(id) else { return false };
        match &ty.type_def {
            TypeDef::Primitive(p) => !matches!(p, scale_info::TypeDefPrimitive::Str),
            TypeDef::Array(a) => self.is_rust_copy(a.type_param.id, depth + 1),
            TypeDef::Tuple(t) => t.fields.iter().all(|f| self.is_rust_copy(f.id, depth + 1)),
            TypeDef::Compact(c) => self.is_rust_copy(c.type_param.id, depth + 1),
            _ => false,
        }
    }

    fn value(&mut self, e: &syn::Expr, id: u32, at: &str) -> Result<(), String> {
        let e = match e {
            syn::Expr::Group(g) => &*g.expr,
            other => other,
        };
        let ty = self.reg.resolve(id).ok_or(format!("no type {id}"))?;
        match &ty.type_def {
            TypeDef::Composite(_) if ty.path.segments.len() == 1 && ty.path.segments[0] == "Cow" => {
                // Cow<T> is generated as T
                let inner = ty.type_params.first().and_then(|p| p.ty).ok_or("Cow without parameter")?;
                self.value(e, inner.id, at)
            }
            TypeDef::Composite(c) => {
                let path = self.type_path(id)?;
                let item = self.item_for(id);
                let ifs = item.and_then(|i| match &i.kind {
                    GKind::Struct(f) => Some(f),
                    _ => None,
                });
                self.field_list(e, &path, &c.fields, ifs, &format!("{at}:{}", ty.path.segments.join("::")))
            }
            TypeDef::Variant(v) => {
                let path = self.type_path(id)?;
                // find the variant from the expression's path
                let head = match e {
                    syn::Expr::Struct(s) => tokens_nospace(&s.path),
                    syn::Expr::Call(c) => tokens_nospace(&c.func),
                    other => tokens_nospace(other),
                };
                let Some(vname) = head.strip_prefix(&format!("{path}::")) else {
                    return Err(format!("{at}: variant literal `{head}` does not start with `{path}::`"));
                };
                let Some(var) = v.variants.iter().find(|x| x.name == vname) else {
                    return Err(format!("{at}: `{vname}` is not a variant of {}", ty.path.segments.join("::")));
                };
                let item = self.item_for(id);
                let ifs = item.and_then(|i| match &i.kind {
                    GKind::Enum(vs) => vs.iter().find(|g| g.name == var.name).map(|g| &g.fields),
                    _ => None,
                });
                self.field_list(e, &head, &var.fields, ifs, &format!("{at}:{}::{vname}", ty.path.segments.join("::")))
            }
            TypeDef::Sequence(s) => {
                let syn::Expr::Macro(m) = e else {
                    return Err(format!("{at}: expected `vec![..]`, found `{}`", tokens_nospace(e)));
                };
                if !m.mac.path.is_ident("vec") {
                    return Err(format!("{at}: expected `vec![..]`"));
                }
                let elems = m
                    .mac
                    .parse_body_with(syn::punctuated::Punctuated::<syn::Expr, syn::Token![,]>::parse_terminated)
                    .map_err(|e| format!("{at}: vec! body does not parse: {e}"))?;
                for (i, x) in elems.iter().enumerate() {
                    self.value(x, s.type_param.id, &format!("{at}[{i}]"))?;
                }
                Ok(())
            }
            TypeDef::Array(a) => match e {
                syn::Expr::Repeat(r) => {
                    let n = match &*r.len {
                        syn::Expr::Lit(syn::ExprLit {
                            lit: syn::Lit::Int(i),
                            ..
                        }) => i.base10_parse::<u64>().map_err(|e| e.to_string())?,
                        other => return Err(format!("{at}: array length `{}`", tokens_nospace(other))),
                    };
                    if n != a.len as u64 {
                        return Err(format!("{at}: array literal repeats {n} times, type has length {}", a.len));
                    }
                    // `[e; n]` with n >= 2 is an expression of the array type only if the element type is Copy
                    if n >= 2 && !self.is_rust_copy(a.type_param.id, 0) {
                        return Err(format!(
                            "{at}: repeat expression `[e; {n}]` for an element type that is not Copy (`{}`)",
                            tokens_nospace(&*r.expr)
                        ));
                    }
                    self.value(&r.expr, a.type_param.id, &format!("{at}[;]"))
                }
                syn::Expr::Array(arr) => {
                    if arr.elems.len() != a.len as usize {
                        return Err(format!("{at}: array literal has {} elements, type has length {}", arr.elems.len(), a.len));
                    }
                    for (i, x) in arr.elems.iter().enumerate() {
                        self.value(x, a.type_param.id, &format!("{at}[{i}]"))?;
                    }
                    Ok(())
                }
                other => Err(format!("{at}: expected an array literal, found `{}`", tokens_nospace(other))),
            },
            TypeDef::Tuple(t) => {
                let syn::Expr::Tuple(tu) = e else {
                    return Err(format!(
                        "{at}: expected a tuple expression of arity {}, found `{}`",
                        t.fields.len(),
                        tokens_nospace(e)
                    ));
                };
                if tu.elems.len() != t.fields.len() {
                    return Err(format!("{at}: tuple arity {} vs {}", tu.elems.len(), t.fields.len()));
                }
                for (i, (x, f)) in tu.elems.iter().zip(t.fields.iter()).enumerate() {
                    self.value(x, f.id, &format!("{at}.{i}"))?;
                }
                Ok(())
            }
            TypeDef::Primitive(p) => match p {
                TypeDefPrimitive::Bool => match e {
                    syn::Expr::Lit(syn::ExprLit {
                        lit: syn::Lit::Bool(_),
                        ..
                    }) => {
                        self.prim_leaves += 1;
                        Ok(())
                    }
                    _ => Err(format!("{at}: expected true|false, found `{}`", tokens_nospace(e))),
                },
                TypeDefPrimitive::Char => match e {
                    syn::Expr::Lit(syn::ExprLit {
                        lit: syn::Lit::Char(_),
                        ..
                    }) => {
                        self.prim_leaves += 1;
                        Ok(())
                    }
                    _ => Err(format!("{at}: expected a char literal, found `{}`", tokens_nospace(e))),
                },
                TypeDefPrimitive::Str => match e {
                    syn::Expr::MethodCall(m)
                        if m.method == "into"
                            && m.args.is_empty()
                            && matches!(
                                &*m.receiver,
                                syn::Expr::Lit(syn::ExprLit {
                                    lit: syn::Lit::Str(_),
                                    ..
                                })
                            ) =>
                    {
                        self.prim_leaves += 1;
                        Ok(())
                    }
                    _ => Err(format!("{at}: expected `\"..\".into()`, found `{}`", tokens_nospace(e))),
                },
                TypeDefPrimitive::U8 => self.int_lit(e, "u8", false, at),
                TypeDefPrimitive::U16 => self.int_lit(e, "u16", false, at),
                TypeDefPrimitive::U32 => self.int_lit(e, "u32", false, at),
                TypeDefPrimitive::U64 => self.int_lit(e, "u64", false, at),
                TypeDefPrimitive::U128 => self.int_lit(e, "u128", false, at),
                TypeDefPrimitive::I8 => self.int_lit(e, "i8", true, at),
                TypeDefPrimitive::I16 => self.int_lit(e, "i16", true, at),
                TypeDefPrimitive::I32 => self.int_lit(e, "i32", true, at),
                TypeDefPrimitive::I64 => self.int_lit(e, "i64", true, at),
                TypeDefPrimitive::I128 => self.int_lit(e, "i128", true, at),
                TypeDefPrimitive::U256 | TypeDefPrimitive::I256 => Err("256-bit integers are outside C14's domain".into()),
            },
            TypeDef::Compact(c) => {
                // `Compact(..)` is accepted but never required
                if let syn::Expr::Call(call) = e {
                    if expr_path(&call.func).as_deref() == Some("Compact") && call.args.len() == 1 {
                        return self.value(&call.args[0], c.type_param.id, at);
                    }
                }
                self.value(e, c.type_param.id, at)
            }
            TypeDef::BitSequence(_) => Err("bit sequences are outside C14's domain".into()),
        }
    }
}

fn classify(msg: &str) -> &'static str {
    if msg.contains(":Cow:") {
        return "rust-value:cow-wrapped-like-a-struct";
    }
    if msg.contains("expected a `u16` literal, found `n`") {
        "rust-value:u16-ident"
    } else if msg.contains("expected a tuple expression of arity 1") {
        "rust-value:one-tuple-paren"
    } else if msg.contains("__subxt_unused_type_params") {
        "rust-value:marker-name"
    } else if msg.contains("expected a tuple-struct literal") && msg.contains("found") {
        "rust-value:unit-struct-marker"
    } else {
        "c14:not-an-instance"
    }
}

/// Ok(Some((struct literals, primitive leaves))) if an example was returned and accepted
pub fn rust_value_oracle(
    reg: &PortableRegistry,
    settings: &scale_typegen::TypeGeneratorSettings,
    out: &GenOut,
    id: u32,
    seed: u64,
) -> Result<Option<(u32, u32)>, (String, String)> {
    let r1 = guard(|| rust_value_from_seed(id, reg, settings, seed, None, None).map(|t| t.to_string()))
        .map_err(|p| ("c14:panic".to_string(), format!("rust_value_from_seed({id}, seed {seed}) panicked: {p}")))?;
    let r2 = guard(|| rust_value_from_seed(id, reg, settings, seed, None, None).map(|t| t.to_string()))
        .map_err(|p| ("c14:panic".to_string(), format!("second call panicked: {p}")))?;
    let toks = match (r1, r2) {
        (Ok(a), Ok(b)) => {
            if a != b {
                return Err(("c14:seed-nondeterministic".into(), format!("id {id} seed {seed}: `{a}` vs `{b}`")));
            }
            a
        }
        (Err(_), Err(_)) => return Ok(None),
        _ => return Err(("c14:seed-nondeterministic".into(), format!("id {id} seed {seed}: Ok and Err for one seed"))),
    };
    let expr: syn::Expr = syn::parse_str(&toks)
        .map_err(|e| ("c14:unparsable".to_string(), format!("id {id} seed {seed}: `{toks}` is not a Rust expression: {e}")))?;
    let mut w = Walker {
        reg,
        out,
        settings,
        struct_literals: 0,
        prim_leaves: 0,
    };
    match w.value(&expr, id, &format!("id{id}")) {
        Ok(()) => Ok(Some((w.struct_literals, w.prim_leaves))),
        Err(m) => Err((classify(&m).to_string(), format!("id {id} seed {seed}: {m} :: `{toks}`"))),
    }
}

fn probe(which: &'static str) -> Result<(), Failure> {
    use crate::program::*;
    let fld = |n: Option<&str>, t: Ty| FieldDef {
        name: n.map(|s| s.to_string()),
        ty: t,
        compact_attr: false,
        docs: vec![],
    };
    let p = |n: &str| ParamDecl {
        name: n.into(),
        skipped: false,
        config: false,
        compactable: false,
        bitstore: false,
        bitorder: false,
    };
    let (params, body, args): (Vec<ParamDecl>, Fields, Vec<Ty>) = match which {
        "rust-value:cow-wrapped-like-a-struct" => (
            vec![],
            Fields::Named(vec![fld(Some("a"), Ty::Cow(Box::new(Ty::StrSlice))), fld(Some("b"), Ty::Cow(Box::new(Ty::Tuple(vec![]))))]),
            vec![],
        ),
        "rust-value:u16-ident" => (vec![], Fields::Named(vec![fld(Some("a"), Ty::Prim(Prim::U16))]), vec![]),
        "rust-value:one-tuple-paren" => (
            vec![],
            Fields::Named(vec![fld(Some("a"), Ty::Tuple(vec![Ty::Prim(Prim::U8)]))]),
            vec![],
        ),
        "rust-value:marker-name" => (
            vec![p("T")],
            Fields::Named(vec![fld(Some("a"), Ty::Prim(Prim::U8))]),
            vec![Ty::Prim(Prim::Bool)],
        ),
        // regression probes distilled from seeded changes (C14b/C14e/C14f: `Compact<` nested in the type name of a
        // field that is not compact itself, written qualified and unqualified; C14d: zero-length array of a non-Copy item)
        "regress:nested-compact-type-names" => (
            vec![],
            Fields::Named(vec![
                fld(Some("targets"), Ty::Seq(SeqKind::Vec, Box::new(Ty::Compact(Box::new(Ty::Prim(Prim::U32)))))),
                fld(Some("pair"), Ty::Tuple(vec![Ty::Compact(Box::new(Ty::Prim(Prim::U16))), Ty::Prim(Prim::Bool)])),
                fld(Some("maybe"), Ty::Opt(Box::new(Ty::Compact(Box::new(Ty::Prim(Prim::U8)))))),
                fld(Some("arr"), Ty::Array(2, Box::new(Ty::Compact(Box::new(Ty::Prim(Prim::U64)))))),
                fld(Some("direct"), Ty::Compact(Box::new(Ty::Prim(Prim::U128)))),
            ]),
            vec![],
        ),
        "regress:zero-length-array-of-non-copy" => (
            vec![],
            Fields::Named(vec![
                fld(Some("a"), Ty::Array(0, Box::new(Ty::Prim(Prim::Str)))),
                fld(Some("b"), Ty::Array(0, Box::new(Ty::Seq(SeqKind::Vec, Box::new(Ty::Prim(Prim::U8)))))),
                fld(Some("c"), Ty::Array(3, Box::new(Ty::Prim(Prim::Str)))),
                fld(Some("d"), Ty::Array(0, Box::new(Ty::Prim(Prim::U8)))),
            ]),
            vec![],
        ),
        _ => (vec![p("T")], Fields::Unit, vec![Ty::Prim(Prim::Bool)]),
    };
    for name_style in [0u8, 1] {
    let prog = Program {
        name_style,
        defs: vec![Def {
            path: vec!["krate".into(), "Probe".into()],
            params: params.clone(),
            docs: vec![],
            body: Body::Struct(body.clone()),
            config_inner: None,
        }],
        roots: vec![Ty::Def(0, args.clone())],
    };
    let low = crate::lower::lower(&prog);
    let spec = SettingsSpec::default();
    let GenResult::Ok(out) = run_typegen(&low.registry, &spec) else {
        return Err(Failure::infra("probe registry does not generate"));
    };
    let settings = spec.build();
    for seed in [0u64, 7] {
        rust_value_oracle(&low.registry, &settings, &out, 0, seed)
            .map_err(|(_, m)| Failure::new(m).sig(which).with(json!({"program": prog.to_text()})))?;
    }
    }
    Ok(())
}

impl Property for C14 {
    fn id(&self) -> &'static str {
        "C14"
    }
    fn rule(&self) -> String {
        "tape -> program (no bit sequences, no 256-bit integers; generics with unused parameters, unit structs, 1-tuples, arrays of length \
         0..33, compact fields and Compact<..>-typed fields, maps, Cow, recursion) -> registry + path settings (root name, alloc path, compact \
         path); for EVERY id and seeds {0, 1, u64::MAX, tape-random}: rust_value_from_seed under catch_unwind; a returned token stream must \
         parse as syn::Expr and a lockstep walk against the registry AND the item the generator emits for that id must accept it (struct / \
         variant literal paths = resolve_type_path without generics, field names and arity of the emitted item including the marker for unused \
         parameters, typed primitive literals, tuple/array/vec arity, Compact(..) accepted never required); two calls with one seed agree. \
         Non-trivial: example with >= 1 struct/variant literal and >= 3 primitive leaves; distinct by hash of (registry, settings, id)."
            .into()
    }
    fn probes(&self) -> Vec<Probe> {
        vec![
            Probe {
                signature: "rust-value:u16-ident",
                what: "u16 example",
                run: Box::new(|| probe("rust-value:u16-ident")),
            },
            Probe {
                signature: "rust-value:one-tuple-paren",
                what: "1-tuple example",
                run: Box::new(|| probe("rust-value:one-tuple-paren")),
            },
            Probe {
                signature: "rust-value:marker-name",
                what: "struct with an unused parameter",
                run: Box::new(|| probe("rust-value:marker-name")),
            },
            Probe {
                signature: "rust-value:cow-wrapped-like-a-struct",
                what: "Cow<'static, str> and Cow<'static, ()> fields",
                run: Box::new(|| probe("rust-value:cow-wrapped-like-a-struct")),
            },
            Probe {
                signature: "regress:nested-compact-type-names",
                what: "Vec<Compact<u32>>, (Compact<u16>, bool), Option<Compact<u8>>, [Compact<u64>; 2], Compact<u128> fields, type names unqualified and path-qualified",
                run: Box::new(|| probe("regress:nested-compact-type-names")),
            },
            Probe {
                signature: "regress:zero-length-array-of-non-copy",
                what: "[String; 0], [Vec<u8>; 0], [String; 3], [u8; 0] fields",
                run: Box::new(|| probe("regress:zero-length-array-of-non-copy")),
            },
            Probe {
                signature: "rust-value:unit-struct-marker",
                what: "unit struct with an unused parameter",
                run: Box::new(|| probe("rust-value:unit-struct-marker")),
            },
        ]
    }
    fn strata(&self, tier: Tier) -> Vec<Stratum> {
        vec![Stratum::random("programs", tier.pick(10_000, 300_000), tier.pick(384, 768))]
    }
    fn eval(&self, _stratum: &str, input: Input, stats: &mut Stats) -> Result<(), Failure> {
        let Input::Tape(bytes) = input else {
            return Err(Failure::infra("C14 expects tapes"));
        };
        let mut t = Tape::new(bytes);
        let mut opts = GenOpts::plain();
        opts.bits = false;
        let Some(case) = make_case(&mut t, &opts) else {
            stats.count("discard_too_large", 1);
            return Ok(());
        };
        if !case.cf.all_cf {
            // the marker of the emitted item is the first instantiation's; coincidences change it
            stats.count("discard_non_cf", 1);
            return Ok(());
        }
        let reg = &case.low.registry;
        let mut spec = SettingsSpec::default();
        spec.root = pick_root(&mut t, reg);
        spec.alloc = match t.choose(3) {
            0 => None,
            1 => Some("::alloc".into()),
            _ => Some("::some_crate::alloc".into()),
        };
        if t.flag() {
            spec.compact_path = Some("::other::codec::Compact".into());
        }
        let GenResult::Ok(out) = run_typegen(reg, &spec) else {
            stats.label("generation_not_ok");
            return Ok(());
        };
        let text = case.gen.prog.to_text();
        let settings = spec.build();
        let rnd = t.u64();
        let case_hash = hash_str(&format!("{}{}", registry_json(reg), spec.to_json()));
        for ty in &reg.types {
            if example_weight(reg, ty.id) > 2_000 {
                stats.count("skipped_oversized_example", 1);
                continue;
            }
            let mut best = None;
            for seed in [0u64, 1, u64::MAX, rnd] {
                match rust_value_oracle(reg, &settings, &out, ty.id, seed) {
                    Err((sig, msg)) => {
                        return Err(Failure::new(msg).sig(sig).with(
                            json!({"program": text, "id": ty.id, "seed": seed, "settings": spec.to_json(), "registry": registry_json(reg), "tokens": out.tokens}),
                        ))
                    }
                    Ok(Some(x)) => best = Some(x),
                    Ok(None) => {}
                }
            }
            stats.count("ids_checked", 1);
            match best {
                None => {
                    let r = reach(reg, ty.id);
                    stats.label(if r.cyclic { "no_example_cyclic" } else { "no_example_other" });
                }
                Some((lits, prims)) => {
                    stats.label("example_returned");
                    if lits >= 1 && prims >= 3 {
                        stats.nontrivial(mix(&[case_hash, ty.id as u64]));
                        stats.sample("example", || {
                            json!({"program": text, "id": ty.id, "example": rust_value_from_seed(ty.id, reg, &spec.build(), 0, None, None).map(|t| t.to_string()).unwrap_or_default()})
                        });
                    }
                }
            }
        }
        Ok(())
    }
}
