//! C10 Documented failure conditions are errors, not panics, and the only ones.

use crate::case::*;
use crate::engine::*;
use crate::gen::GenOpts;
use crate::lower::{permute_registry, registry_json, sym};
use crate::props::c01::gen_perm;
use crate::settings::{gen_settings, SettingsOpts, SettingsSpec};
use crate::tape::{hash_str, mix, Tape};
use scale_info::{
    form::PortableForm, Path, PortableRegistry, PortableType, Type, TypeDef, TypeDefBitSequence,
    TypeDefCompact, TypeDefComposite, TypeDefPrimitive,
};
use scale_typegen::utils::ensure_unique_type_paths;
use serde_json::{json, Value};
use std::collections::BTreeSet;

pub struct C10;

#[derive(Clone, Debug, PartialEq, Eq)]
enum Loc {
    StructField(usize),
    VariantField(usize, usize),
    SeqElem,
    ArrayElem,
    TupleElem(usize),
    /// the type parameter (and the single field) of scale-info's prelude `Cow<T>`, which generation unwraps
    CowParam,
}

#[derive(Clone, Debug)]
enum Fault {
    /// entry k gets id j
    Id(usize, u32),
    /// flip the named-ness of field 0 of (entry, variant?)
    Mixed(usize, Option<usize>),
    /// the type id at (entry, loc) is replaced by a fresh Compact<uint> entry; compact path unset
    CompactRef(usize, Loc),
    /// a compact type over the unit tuple (`()` is HasCompact) referenced from that site
    CompactUnitRef(usize, Loc),
    /// ... by a fresh BitSequence entry; bits path unset
    BitsRef(usize, Loc),
    /// ... by an id that does not exist
    Dangling(usize, Loc),
}

fn namespaced(t: &Type<PortableForm>) -> bool {
    t.path.segments.len() >= 2
}

/// ids that generation resolves (mirrors what a resolver has to look at: fields of namespaced
/// types, then type parameters of named types and elements of unnamed ones)
fn visited_by_generation(reg: &PortableRegistry) -> BTreeSet<u32> {
    let mut seen = BTreeSet::new();
    // `params`: concrete ids of the enclosing type's parameters; an id that equals one of them is
    // emitted as the parameter and never looked at
    fn walk(reg: &PortableRegistry, id: u32, params: &[u32], seen: &mut BTreeSet<(u32, Vec<u32>)>, out: &mut BTreeSet<u32>) {
        if params.contains(&id) {
            return;
        }
        if !seen.insert((id, params.to_vec())) {
            return;
        }
        out.insert(id);
        let Some(t) = reg.resolve(id) else { return };
        for p in &t.type_params {
            if let Some(p) = p.ty {
                walk(reg, p.id, params, seen, out);
            }
        }
        match &t.type_def {
            TypeDef::Sequence(s) => walk(reg, s.type_param.id, params, seen, out),
            TypeDef::Array(a) => walk(reg, a.type_param.id, params, seen, out),
            TypeDef::Tuple(tu) => tu.fields.iter().for_each(|f| walk(reg, f.id, params, seen, out)),
            TypeDef::Compact(c) => walk(reg, c.type_param.id, params, seen, out),
            TypeDef::BitSequence(b) => {
                walk(reg, b.bit_order_type.id, params, seen, out);
                walk(reg, b.bit_store_type.id, params, seen, out);
            }
            _ => {}
        }
    }
    let mut memo = BTreeSet::new();
    for t in &reg.types {
        if !namespaced(&t.ty) {
            continue;
        }
        let params: Vec<(u32, &String)> = t
            .ty
            .type_params
            .iter()
            .filter_map(|p| p.ty.map(|ty| (ty.id, &p.name)))
            .collect();
        let pids: Vec<u32> = params.iter().map(|p| p.0).collect();
        let mut field = |f: &scale_info::Field<PortableForm>| {
            // top level: id and recorded type name must both match for the parameter to be used
            let is_param = params.iter().any(|(id, name)| {
                *id == f.ty.id && f.type_name.as_ref().map(|n| n == *name).unwrap_or(true)
            });
            if is_param {
                return;
            }
            // the field's own id is resolved even if it coincides with a parameter id
            let mut local = BTreeSet::new();
            walk(reg, f.ty.id, &[], &mut local, &mut BTreeSet::new());
            seen.insert(f.ty.id);
            if let Some(ft) = reg.resolve(f.ty.id) {
                for p in &ft.type_params {
                    if let Some(p) = p.ty {
                        walk(reg, p.id, &pids, &mut memo, &mut seen);
                    }
                }
                match &ft.type_def {
                    TypeDef::Sequence(s) => walk(reg, s.type_param.id, &pids, &mut memo, &mut seen),
                    TypeDef::Array(a) => walk(reg, a.type_param.id, &pids, &mut memo, &mut seen),
                    TypeDef::Tuple(tu) => tu.fields.iter().for_each(|x| walk(reg, x.id, &pids, &mut memo, &mut seen)),
                    TypeDef::Compact(c) => walk(reg, c.type_param.id, &pids, &mut memo, &mut seen),
                    TypeDef::BitSequence(b) => {
                        walk(reg, b.bit_order_type.id, &pids, &mut memo, &mut seen);
                        walk(reg, b.bit_store_type.id, &pids, &mut memo, &mut seen);
                    }
                    _ => {}
                }
            }
        };
        match &t.ty.type_def {
            TypeDef::Composite(c) => c.fields.iter().for_each(&mut field),
            TypeDef::Variant(v) => v.variants.iter().flat_map(|v| v.fields.iter()).for_each(&mut field),
            _ => {}
        }
    }
    seen
}

fn ref_sites(reg: &PortableRegistry) -> Vec<(usize, Loc)> {
    let visited = visited_by_generation(reg);
    let mut out = vec![];
    for (k, t) in reg.types.iter().enumerate() {
        match &t.ty.type_def {
            TypeDef::Composite(c) if namespaced(&t.ty) => {
                for i in 0..c.fields.len() {
                    out.push((k, Loc::StructField(i)));
                }
            }
            TypeDef::Variant(v) if namespaced(&t.ty) => {
                for (vi, var) in v.variants.iter().enumerate() {
                    for i in 0..var.fields.len() {
                        out.push((k, Loc::VariantField(vi, i)));
                    }
                }
            }
            // nested element positions of unnamed types that generation actually resolves
            TypeDef::Sequence(_) if visited.contains(&t.id) => out.push((k, Loc::SeqElem)),
            TypeDef::Array(_) if visited.contains(&t.id) => out.push((k, Loc::ArrayElem)),
            TypeDef::Tuple(tu) if visited.contains(&t.id) => {
                for i in 0..tu.fields.len() {
                    out.push((k, Loc::TupleElem(i)));
                }
            }
            TypeDef::Composite(c)
                if visited.contains(&t.id)
                    && t.ty.path.segments.len() == 1
                    && t.ty.path.segments[0] == "Cow"
                    && c.fields.len() == 1
                    && t.ty.type_params.len() == 1 =>
            {
                out.push((k, Loc::CowParam));
            }
            _ => {}
        }
    }
    out
}

fn set_ref(reg: &mut PortableRegistry, k: usize, loc: &Loc, id: u32) {
    let t = &mut reg.types[k].ty;
    match (&mut t.type_def, loc) {
        (TypeDef::Composite(c), Loc::StructField(i)) => c.fields[*i].ty = sym(id),
        (TypeDef::Variant(v), Loc::VariantField(vi, i)) => v.variants[*vi].fields[*i].ty = sym(id),
        (TypeDef::Sequence(s), Loc::SeqElem) => s.type_param = sym(id),
        (TypeDef::Array(a), Loc::ArrayElem) => a.type_param = sym(id),
        (TypeDef::Tuple(tu), Loc::TupleElem(i)) => tu.fields[*i] = sym(id),
        (TypeDef::Composite(c), Loc::CowParam) => {
            c.fields[0].ty = sym(id);
            t.type_params[0].ty = Some(sym(id));
        }
        _ => panic!("site does not match entry"),
    }
}

fn push_type(reg: &mut PortableRegistry, path: Vec<&str>, def: TypeDef<PortableForm>) -> u32 {
    let id = reg.types.len() as u32;
    reg.types.push(PortableType {
        id,
        ty: Type {
            path: Path::from_segments_unchecked(path.into_iter().map(|s| s.to_string())),
            type_params: vec![],
            type_def: def,
            docs: vec![],
        },
    });
    id
}

fn uint_id(reg: &mut PortableRegistry) -> u32 {
    for t in &reg.types {
        if let TypeDef::Primitive(TypeDefPrimitive::U32 | TypeDefPrimitive::U64 | TypeDefPrimitive::U8) =
            &t.ty.type_def
        {
            return t.id;
        }
    }
    push_type(reg, vec![], TypeDef::Primitive(TypeDefPrimitive::U32))
}

/// apply a fault; returns (faulty registry, settings, expected error, id to resolve afterwards)
fn apply(base: &PortableRegistry, spec: &SettingsSpec, f: &Fault) -> (PortableRegistry, SettingsSpec, ErrKind, Option<u32>) {
    let mut reg = base.clone();
    let mut spec = spec.clone();
    match f {
        Fault::Id(k, j) => {
            reg.types[*k].id = *j;
            (
                reg,
                spec,
                ErrKind::RegistryTypeIdsInvalid {
                    given: *j,
                    expected: *k as u32,
                },
                None,
            )
        }
        Fault::Mixed(k, variant) => {
            let fields = match (&mut reg.types[*k].ty.type_def, variant) {
                (TypeDef::Composite(c), None) => &mut c.fields,
                (TypeDef::Variant(v), Some(vi)) => &mut v.variants[*vi].fields,
                _ => panic!("mixed fault site"),
            };
            if fields[0].name.is_some() {
                fields[0].name = None;
            } else {
                fields[0].name = Some("injected".to_string());
            }
            (reg, spec, ErrKind::InvalidFields, None)
        }
        Fault::CompactRef(k, loc) => {
            let u = uint_id(&mut reg);
            let c = push_type(&mut reg, vec![], TypeDef::Compact(TypeDefCompact { type_param: sym(u) }));
            set_ref(&mut reg, *k, loc, c);
            spec.compact_path = None;
            (reg, spec, ErrKind::CompactPathNone, Some(c))
        }
        Fault::CompactUnitRef(k, loc) => {
            let u = push_type(&mut reg, vec![], TypeDef::Tuple(scale_info::TypeDefTuple { fields: vec![] }));
            let c = push_type(&mut reg, vec![], TypeDef::Compact(TypeDefCompact { type_param: sym(u) }));
            set_ref(&mut reg, *k, loc, c);
            spec.compact_path = None;
            (reg, spec, ErrKind::CompactPathNone, Some(c))
        }
        Fault::BitsRef(k, loc) => {
            let u = {
                let mut found = None;
                for t in &reg.types {
                    if let TypeDef::Primitive(TypeDefPrimitive::U8) = &t.ty.type_def {
                        found = Some(t.id);
                    }
                }
                found.unwrap_or_else(|| push_type(&mut reg, vec![], TypeDef::Primitive(TypeDefPrimitive::U8)))
            };
            let o = push_type(
                &mut reg,
                vec!["bitvec", "order", "Lsb0"],
                TypeDef::Composite(TypeDefComposite { fields: vec![] }),
            );
            let b = push_type(
                &mut reg,
                vec![],
                TypeDef::BitSequence(TypeDefBitSequence {
                    bit_store_type: sym(u),
                    bit_order_type: sym(o),
                }),
            );
            set_ref(&mut reg, *k, loc, b);
            spec.bits_path = None;
            (reg, spec, ErrKind::DecodedBitsPathNone, Some(b))
        }
        Fault::Dangling(k, loc) => {
            let missing = reg.types.len() as u32 + 7;
            set_ref(&mut reg, *k, loc, missing);
            (reg, spec, ErrKind::TypeNotFound(missing), Some(missing))
        }
    }
}

fn all_faults(reg: &PortableRegistry) -> Vec<Fault> {
    let n = reg.types.len();
    let mut out = vec![];
    for k in 0..n {
        out.push(Fault::Id(k, n as u32 + 3));
        if n > 1 {
            out.push(Fault::Id(k, ((k + 1) % n) as u32));
        }
    }
    for (k, t) in reg.types.iter().enumerate() {
        if !namespaced(&t.ty) {
            continue;
        }
        match &t.ty.type_def {
            TypeDef::Composite(c) if c.fields.len() >= 2 => out.push(Fault::Mixed(k, None)),
            TypeDef::Variant(v) => {
                for (vi, var) in v.variants.iter().enumerate() {
                    if var.fields.len() >= 2 {
                        out.push(Fault::Mixed(k, Some(vi)));
                    }
                }
            }
            _ => {}
        }
    }
    for (k, loc) in ref_sites(reg) {
        out.push(Fault::CompactRef(k, loc.clone()));
        out.push(Fault::CompactUnitRef(k, loc.clone()));
        out.push(Fault::BitsRef(k, loc.clone()));
        out.push(Fault::Dangling(k, loc));
    }
    out
}

fn gen_err(reg: &PortableRegistry, spec: &SettingsSpec) -> Result<Option<ErrKind>, String> {
    match run_typegen(reg, spec) {
        GenResult::Ok(_) => Ok(None),
        GenResult::Err(e) => Ok(Some(e)),
        GenResult::Panic(p) => Err(p),
        GenResult::Unparsable(e, _) => Ok(Some(ErrKind::Other(format!("unparsable: {e}")))),
    }
}

fn dedup_err(reg: &PortableRegistry) -> Result<Option<ErrKind>, String> {
    let mut r = reg.clone();
    match guard(|| ensure_unique_type_paths(&mut r)) {
        Err(p) => Err(p),
        Ok(Ok(())) => Ok(None),
        Ok(Err(e)) => Ok(Some(err_kind(&e))),
    }
}

fn fault_free(reg: &PortableRegistry, spec: &SettingsSpec, decoded: &dyn Fn() -> Value) -> Result<(), Failure> {
    match gen_err(reg, spec) {
        Err(p) => {
            return Err(Failure::new(format!("generate_types_mod panicked on a well-formed registry: {p}"))
                .sig("c10:panic-well-formed")
                .with(decoded()))
        }
        Ok(None) | Ok(Some(ErrKind::DuplicateTypePath(_))) => {}
        Ok(Some(e)) => {
            return Err(Failure::new(format!(
                "generate_types_mod failed with {e:?} on a well-formed registry with supported settings"
            ))
            .sig("c10:undocumented-error")
            .with(decoded()))
        }
    }
    match dedup_err(reg) {
        Err(p) => {
            return Err(Failure::new(format!("ensure_unique_type_paths panicked: {p}"))
                .sig("c10:panic-well-formed")
                .with(decoded()))
        }
        Ok(Some(e)) => {
            return Err(Failure::new(format!("ensure_unique_type_paths failed with {e:?}"))
                .sig("c10:undocumented-error")
                .with(decoded()))
        }
        Ok(None) => {}
    }
    let settings = spec.build();
    for t in &reg.types {
        match resolve_tokens(reg, &settings, t.id) {
            Err(p) => {
                return Err(Failure::new(format!("resolve_type_path({}) panicked: {p}", t.id))
                    .sig("c10:panic-well-formed")
                    .with(decoded()))
            }
            Ok(Err(e)) => {
                return Err(Failure::new(format!("resolve_type_path({}) failed with {e:?}", t.id))
                    .sig("c10:undocumented-error")
                    .with(decoded()))
            }
            Ok(Ok(_)) => {}
        }
    }
    Ok(())
}

impl Property for C10 {
    fn id(&self) -> &'static str {
        "C10"
    }
    fn level(&self) -> &'static str {
        "fault_enumeration"
    }
    fn rule(&self) -> String {
        "(fault_free) tape -> program from all strata -> registry (random order) + supported settings, and Polkadot sub-registries: \
         generate_types_mod, ensure_unique_type_paths and resolve_type_path(id) for every id must return Ok (generation may also report \
         DuplicateTypePath) and never panic. (faults) tape -> base registry with unique paths, no compact/bit-sequence types, no recursive \
         derives; then EVERY single fault of each documented kind at EVERY site is injected in turn: entry k gets a wrong id (two values per \
         entry), field 0 of every multi-field composite/variant of a namespaced type flips its named-ness, and at every struct field, variant \
         field and nested element position that generation resolves the referenced id is replaced by a fresh Compact type (compact path unset), \
         a fresh BitSequence type (bits path unset) or a non-existent id; the exact documented error kind (with its payload) is required from \
         generate_types_mod (and from ensure_unique_type_paths for id faults, from resolve_type_path for the injected id), under catch_unwind. \
         Non-trivial: every injected fault (distinct by base registry hash, kind, site) and fault-free registries with >= 5 types."
            .into()
    }
    fn assumptions(&self) -> Vec<String> {
        vec![
            "one fault at a time; sites are enumerated exhaustively per base registry, base registries are sampled".into(),
            "U256/I256 primitives (no Rust type; `unimplemented!` by design) are outside the domain".into(),
        ]
    }
    fn self_check(&self) -> Result<(), String> {
        crate::realcorpus::self_check(6, 20)
    }
    fn probes(&self) -> Vec<Probe> {
        vec![Probe {
            signature: "compact:non-path-inner-panics",
            what: "struct Probe { #[codec(compact)] u: (), cu: Compact<()> }",
            run: Box::new(|| {
                use crate::program::*;
                let fields = Fields::Named(vec![
                    FieldDef { name: Some("u".into()), ty: Ty::Tuple(vec![]), compact_attr: true, docs: vec![] },
                    FieldDef { name: Some("cu".into()), ty: Ty::Compact(Box::new(Ty::Tuple(vec![]))), compact_attr: false, docs: vec![] },
                ]);
                let prog = Program {
                    name_style: 0,
                    defs: vec![Def { path: vec!["krate".into(), "Probe".into()], params: vec![], docs: vec![], body: Body::Struct(fields), config_inner: None }],
                    roots: vec![Ty::Def(0, vec![])],
                };
                let low = crate::lower::lower(&prog);
                let spec = SettingsSpec::default();
                let text = prog.to_text();
                fault_free(&low.registry, &spec, &|| json!({"program": text})).map_err(|f| f.sig("compact:non-path-inner-panics"))
            }),
        }]
    }
    fn strata(&self, tier: Tier) -> Vec<Stratum> {
        vec![
            Stratum::random("fault_free", tier.pick(40_000, 1_000_000), tier.pick(384, 768)),
            Stratum::random("fault_free_polkadot", tier.pick(150, 3_000), 96),
            Stratum::random("faults", tier.pick(6_000, 150_000), 256),
        ]
    }
    fn eval(&self, stratum: &str, input: Input, stats: &mut Stats) -> Result<(), Failure> {
        let Input::Tape(bytes) = input else {
            return Err(Failure::infra("C10 expects tapes"));
        };
        let mut t = Tape::new(bytes);
        match stratum {
            "fault_free" => {
                let mut opts = GenOpts::full();
                opts.compact_unit = true;
                let Some(case) = make_case(&mut t, &opts) else {
                    stats.count("discard_too_large", 1);
                    return Ok(());
                };
                let mut so = SettingsOpts::wire();
                so.recursive = true;
                let spec = gen_settings(&mut t, &case.low.registry, &so);
                let reg = if t.flag() {
                    let perm = gen_perm(&mut t, case.low.registry.types.len());
                    permute_registry(&case.low.registry, &perm)
                } else {
                    case.low.registry.clone()
                };
                let text = case.gen.prog.to_text();
                let decoded = || json!({"program": text, "settings": spec.to_json(), "registry": registry_json(&reg)});
                fault_free(&reg, &spec, &decoded)?;
                if reg.types.len() >= 5 {
                    stats.nontrivial(hash_str(&format!("{}{}", registry_json(&reg), spec.to_json())));
                    for l in &case.gen.labels {
                        stats.label(l);
                    }
                    stats.sample("fault_free_case", || json!({"program": text, "settings": spec.to_json()}));
                }
                Ok(())
            }
            "fault_free_polkadot" => {
                let (reg, _) = crate::metadata::sub_registry(&mut t, 30);
                let spec = gen_settings(&mut t, &reg, &SettingsOpts::wire());
                let n = reg.types.len();
                let decoded = || json!({"polkadot_subregistry_types": n, "settings": spec.to_json(), "registry": registry_json(&reg)});
                fault_free(&reg, &spec, &decoded)?;
                stats.label("polkadot_subregistry");
                if n >= 5 {
                    stats.nontrivial(hash_str(&format!("{}{}", registry_json(&reg), spec.to_json())));
                }
                Ok(())
            }
            "faults" => {
                let mut opts = GenOpts::plain();
                opts.compact = false;
                opts.bits = false;
                opts.max_defs = 5;
                let Some(case) = make_case(&mut t, &opts) else {
                    stats.count("discard_too_large", 1);
                    return Ok(());
                };
                let base = &case.low.registry;
                // "base registries with unique paths": a single fault in one member of a same-path
                // family may legitimately surface as DuplicateTypePath first
                if !crate::props::c03::families(base).is_empty() {
                    stats.count("discard_base_with_same_path_family", 1);
                    return Ok(());
                }
                let mut so = SettingsOpts::wire();
                so.recursive = false;
                so.compact_as = false;
                let spec = gen_settings(&mut t, base, &so);
                // base must be fault free itself
                let text = case.gen.prog.to_text();
                let decoded_base = || json!({"program": text, "settings": spec.to_json(), "registry": registry_json(base)});
                match gen_err(base, &spec) {
                    Ok(None) => {}
                    other => {
                        return Err(Failure::new(format!("base registry does not generate: {other:?}"))
                            .sig("c10:base-not-ok")
                            .with(decoded_base()))
                    }
                }
                let base_hash = hash_str(&registry_json(base).to_string());
                for (fi, f) in all_faults(base).into_iter().enumerate() {
                    let (reg, fspec, want, resolve_id) = apply(base, &spec, &f);
                    let decoded = || {
                        json!({"program": text, "fault": format!("{f:?}"), "settings": fspec.to_json(), "faulty_registry": registry_json(&reg)})
                    };
                    let kind = match &f {
                        Fault::Id(..) => "id_fault",
                        Fault::Mixed(..) => "mixed_fields_fault",
                        Fault::CompactRef(..) => "compact_path_fault",
                        Fault::CompactUnitRef(..) => "compact_unit_path_fault",
                        Fault::BitsRef(..) => "bits_path_fault",
                        Fault::Dangling(..) => "dangling_id_fault",
                    };
                    stats.label(kind);
                    stats.nontrivial(mix(&[base_hash, hash_str(&format!("{f:?}")), fi as u64]));
                    stats.sample(kind, || json!({"program": text, "fault": format!("{f:?}"), "expected": format!("{want:?}")}));
                    match gen_err(&reg, &fspec) {
                        Err(p) => {
                            return Err(Failure::new(format!("{f:?}: generate_types_mod panicked instead of {want:?}: {p}"))
                                .sig(format!("c10:{kind}:panic"))
                                .with(decoded()))
                        }
                        Ok(got) => {
                            if got.as_ref() != Some(&want) {
                                return Err(Failure::new(format!("{f:?}: generate_types_mod returned {got:?}, documented error is {want:?}"))
                                    .sig(format!("c10:{kind}:wrong-error"))
                                    .with(decoded()));
                            }
                        }
                    }
                    if let Fault::Id(..) = f {
                        match dedup_err(&reg) {
                            Err(p) => {
                                return Err(Failure::new(format!("{f:?}: ensure_unique_type_paths panicked: {p}"))
                                    .sig(format!("c10:{kind}:panic"))
                                    .with(decoded()))
                            }
                            Ok(got) => {
                                if got.as_ref() != Some(&want) {
                                    return Err(Failure::new(format!("{f:?}: ensure_unique_type_paths returned {got:?}, documented error is {want:?}"))
                                        .sig(format!("c10:{kind}:wrong-error"))
                                        .with(decoded()));
                                }
                            }
                        }
                    }
                    if let Some(id) = resolve_id {
                        let settings = fspec.build();
                        match resolve_tokens(&reg, &settings, id) {
                            Err(p) => {
                                return Err(Failure::new(format!("{f:?}: resolve_type_path({id}) panicked: {p}"))
                                    .sig(format!("c10:{kind}:panic"))
                                    .with(decoded()))
                            }
                            Ok(r) => {
                                if r.as_ref().err() != Some(&want) {
                                    return Err(Failure::new(format!("{f:?}: resolve_type_path({id}) returned {r:?}, documented error is {want:?}"))
                                        .sig(format!("c10:{kind}:wrong-error"))
                                        .with(decoded()));
                                }
                            }
                        }
                    }
                }
                stats.count("base_registries", 1);
                Ok(())
            }
            _ => Err(Failure::infra(format!("unknown stratum {stratum}"))),
        }
    }
}
