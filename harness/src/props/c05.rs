//! C05 Generic definitions are recovered as generics (source round trip).

use crate::case::*;
use crate::engine::*;
use crate::gen::GenOpts;
use crate::genmod::*;
use crate::lower::{permute_registry, registry_json};
use crate::program::*;
use crate::props::c01::gen_perm;
use crate::settings::{pick_root, SettingsSpec};
use crate::shape::is_phantom;
use crate::tape::{hash_str, mix, Tape};
use serde_json::json;
use std::collections::{BTreeMap, BTreeSet};

pub struct C05;

struct Tr<'a> {
    prog: &'a Program,
    spec: &'a SettingsSpec,
}

impl<'a> Tr<'a> {
    fn alloc(&self) -> String {
        nospace(self.spec.alloc.as_deref().unwrap_or("::std"))
    }

    /// expected generated type (token string without spaces) for a source type expression.
    /// Returns (type, is_compact_at_top) where the top-level Compact becomes a field attribute.
    fn field(&self, t: &Ty) -> (String, bool) {
        // strip transparent wrappers at the top to find a top-level Compact
        let mut cur = t;
        loop {
            match cur {
                Ty::Ptr(_, inner) | Ty::Cow(inner) => cur = inner,
                _ => break,
            }
        }
        if let Ty::Compact(inner) = cur {
            return (self.ty(inner), true);
        }
        (self.ty(t), false)
    }

    fn ty(&self, t: &Ty) -> String {
        let a = self.alloc();
        match t {
            Ty::Param(i) => format!("_{i}"),
            Ty::Assoc(_) => "<assoc>".into(),
            Ty::Prim(Prim::Str) | Ty::StrSlice => format!("{a}::string::String"),
            Ty::Prim(p) => format!("::core::primitive::{}", p.name()),
            Ty::Def(d, args) => {
                let def = &self.prog.defs[*d];
                let live: Vec<String> = def
                    .params
                    .iter()
                    .zip(args.iter())
                    .filter(|(p, _)| !p.skipped)
                    .map(|(_, a)| self.ty(a))
                    .collect();
                let path = format!("{}::{}", self.spec.root, def.path.join("::"));
                if live.is_empty() {
                    path
                } else {
                    format!("{path}<{}>", live.join(","))
                }
            }
            Ty::Tuple(a) => {
                let parts: Vec<String> = a
                    .iter()
                    .filter(|t| !matches!(t, Ty::Phantom(_)))
                    .map(|t| format!("{},", self.ty(t)))
                    .collect();
                format!("({})", parts.join(""))
            }
            Ty::Array(n, t) => format!("[{};{}usize]", self.ty(t), n),
            Ty::Seq(_, t) => format!("{a}::vec::Vec<{}>", self.ty(t)),
            Ty::Opt(t) => format!("::core::option::Option<{}>", self.ty(t)),
            Ty::Res(x, y) => format!("::core::result::Result<{},{}>", self.ty(x), self.ty(y)),
            Ty::Ptr(_, t) => self.ty(t),
            Ty::Cow(t) => self.ty(t),
            Ty::Map(k, v) => format!("{a}::collections::BTreeMap<{},{}>", self.ty(k), self.ty(v)),
            Ty::Set(t) => format!("{a}::collections::BTreeSet<{}>", self.ty(t)),
            Ty::Heap(t) => format!("{a}::collections::BinaryHeap<{}>", self.ty(t)),
            Ty::Range(t) => format!("::core::ops::Range<{}>", self.ty(t)),
            Ty::RangeIncl(t) => format!("::core::ops::RangeInclusive<{}>", self.ty(t)),
            Ty::NonZero(p) => format!("::core::num::NonZero{}", p.name().to_uppercase()),
            Ty::Duration => "::core::time::Duration".into(),
            Ty::Compact(t) => format!("{}<{}>", nospace(self.spec.compact_path.as_deref().unwrap_or("")), self.ty(t)),
            Ty::BitVec(s, msb) => format!(
                "{}<::core::primitive::{},{}::bitvec::order::{}>",
                nospace(self.spec.bits_path.as_deref().unwrap_or("")),
                s.name(),
                self.spec.root,
                if *msb { "Msb0" } else { "Lsb0" }
            ),
            Ty::BitVecP(a, b) => format!(
                "{}<{},{}>",
                nospace(self.spec.bits_path.as_deref().unwrap_or("")),
                self.ty(a),
                self.ty(b)
            ),
            Ty::BitOrder(msb) => format!("{}::bitvec::order::{}", self.spec.root, if *msb { "Msb0" } else { "Lsb0" }),
            Ty::Phantom(_) => "<phantom>".into(),
        }
    }
}

struct ExpField {
    name: Option<String>,
    ty: String,
    compact: bool,
}

fn expected_fields(tr: &Tr, def: &Def, f: &Fields) -> Vec<ExpField> {
    let r = tr.prog.render_for(def);
    f.list()
        .iter()
        .filter(|fd| !matches!(fd.ty, Ty::Phantom(_)))
        .map(|fd| {
            let (mut ty, mut compact) = tr.field(&fd.ty);
            if fd.compact_attr {
                compact = true;
            }
            // all Box erased, one Box re-applied at field level iff the source text mentions Box
            if r.ty(&fd.ty).contains("Box<") {
                ty = format!("{}::boxed::Box<{ty}>", tr.alloc());
            }
            ExpField {
                name: fd.name.clone(),
                ty,
                compact,
            }
        })
        .collect()
}

fn params_in(ty: &str) -> BTreeSet<String> {
    let mut out = vec![];
    if let Ok(t) = syn::parse_str::<syn::Type>(ty) {
        bare_idents(&t, &mut out);
    }
    out.into_iter().collect()
}

/// compare the emitted field list with the expected one; returns the parameters used
fn cmp_fields(
    exp: &[ExpField],
    got: &GFields,
    env: &BTreeMap<String, syn::Type>,
    codec: bool,
    at: &str,
    used: &mut BTreeSet<String>,
) -> Result<Option<BTreeSet<String>>, String> {
    // split off the marker
    let mut live: Vec<&GField> = vec![];
    let mut marker: Option<BTreeSet<String>> = None;
    for (i, f) in got.list().iter().enumerate() {
        if is_phantom(&f.ty) {
            if i + 1 != got.list().len() {
                return Err(format!("{at}: PhantomData marker is not the trailing field"));
            }
            if marker.is_some() {
                return Err(format!("{at}: more than one marker"));
            }
            if codec && !f.skip && matches!(got, GFields::Named(_) | GFields::Unnamed(_)) {
                // unit structs with a marker carry no skip attribute; others do
            }
            let renamed = subst_type(&f.ty, env);
            let inner = tokens_nospace(&renamed);
            let inner = inner
                .strip_prefix("::core::marker::PhantomData<")
                .and_then(|s| s.strip_suffix('>'))
                .ok_or(format!("{at}: malformed marker {inner}"))?
                .to_string();
            marker = Some(params_in(&inner));
        } else {
            live.push(f);
        }
    }
    if live.len() != exp.len() {
        return Err(format!("{at}: {} fields emitted, the source definition has {} (without PhantomData)", live.len(), exp.len()));
    }
    for (i, (g, e)) in live.iter().zip(exp.iter()).enumerate() {
        if g.name != e.name {
            return Err(format!("{at}: field {i} is named {:?}, source has {:?}", g.name, e.name));
        }
        let got_ty = tokens_nospace(&subst_type(&g.ty, env));
        if got_ty != e.ty {
            return Err(format!("{at}: field {i} has type `{got_ty}`, the source definition translates to `{}`", e.ty));
        }
        if codec && g.compact != e.compact {
            return Err(format!("{at}: field {i} compact attribute {} vs source {}", g.compact, e.compact));
        }
        used.extend(params_in(&e.ty));
    }
    Ok(marker)
}

pub fn source_round_trip(prog: &Program, d: usize, item: &GItem, spec: &SettingsSpec) -> Result<(), String> {
    let def = &prog.defs[d];
    let tr = Tr { prog, spec };
    let at = def.path.join("::");
    let want_generics: Vec<String> = def
        .params
        .iter()
        .enumerate()
        .filter(|(_, p)| !p.skipped)
        .map(|(i, _)| format!("_{i}"))
        .collect();
    if item.generics.len() != want_generics.len() {
        return Err(format!(
            "{at}: item is generic over {} parameters, the definition has {} non-skipped ones",
            item.generics.len(),
            want_generics.len()
        ));
    }
    // consistent renaming: k-th emitted parameter stands for the k-th non-skipped declared one
    let env: BTreeMap<String, syn::Type> = item
        .generics
        .iter()
        .zip(want_generics.iter())
        .map(|(g, w)| (g.clone(), syn::parse_str::<syn::Type>(w).unwrap()))
        .collect();
    let mut used = BTreeSet::new();
    let mut marker: Option<BTreeSet<String>> = None;
    match (&def.body, &item.kind) {
        (Body::Struct(f), GKind::Struct(g)) => {
            let exp = expected_fields(&tr, def, f);
            let named_ok = match (f, g, exp.is_empty()) {
                (_, GFields::Unit, true) => true,
                (_, GFields::Unnamed(x), true) => x.iter().all(|f| is_phantom(&f.ty)),
                (Fields::Named(_), GFields::Named(_), _) => true,
                (Fields::Unnamed(_), GFields::Unnamed(_), false) => true,
                _ => false,
            };
            if !named_ok {
                return Err(format!("{at}: named/unnamed/unit form differs from the source definition"));
            }
            marker = cmp_fields(&exp, g, &env, spec.codec, &at, &mut used)?;
        }
        (Body::Enum(vs), GKind::Enum(gvs)) => {
            let mut gvs: Vec<&GVariant> = gvs.iter().collect();
            if let Some(last) = gvs.last() {
                if last.name == "__Ignore" {
                    let fl = last.fields.list();
                    if fl.len() != 1 || !is_phantom(&fl[0].ty) {
                        return Err(format!("{at}: malformed __Ignore variant"));
                    }
                    let inner = tokens_nospace(&subst_type(&fl[0].ty, &env));
                    let inner = inner
                        .strip_prefix("::core::marker::PhantomData<")
                        .and_then(|s| s.strip_suffix('>'))
                        .ok_or(format!("{at}: malformed marker"))?
                        .to_string();
                    marker = Some(params_in(&inner));
                    gvs.pop();
                }
            }
            if gvs.len() != vs.len() {
                return Err(format!("{at}: {} variants emitted, source has {}", gvs.len(), vs.len()));
            }
            for (v, g) in vs.iter().zip(gvs.iter()) {
                if v.name != g.name {
                    return Err(format!("{at}: variant {} emitted as {}", v.name, g.name));
                }
                if spec.codec && g.index != Some(v.index as u64) {
                    return Err(format!("{at}::{}: index {:?}, source {}", v.name, g.index, v.index));
                }
                let exp = expected_fields(&tr, def, &v.fields);
                let m = cmp_fields(&exp, &g.fields, &env, spec.codec, &format!("{at}::{}", v.name), &mut used)?;
                if m.is_some() {
                    return Err(format!("{at}::{}: marker inside a variant", v.name));
                }
            }
        }
        _ => return Err(format!("{at}: struct/enum kind differs from the source definition")),
    }
    let want_marker: BTreeSet<String> = want_generics.iter().filter(|g| !used.contains(*g)).cloned().collect();
    let got_marker = marker.unwrap_or_default();
    if got_marker != want_marker {
        return Err(format!(
            "{at}: marker names {got_marker:?}, the otherwise unused parameters are {want_marker:?}"
        ));
    }
    Ok(())
}

impl Property for C05 {
    fn id(&self) -> &'static str {
        "C05"
    }
    fn rule(&self) -> String {
        "tape -> coincidence-free program of (generic) struct/enum definitions in nested modules with 1-3 instantiations each (skipped \
         parameters, PhantomData fields, Cow, VecDeque, slices, Box/Rc/Arc/& at any depth, compact attributes and Compact<..> types, maps, \
         ranges, bit sequences, recursion) -> registry in lowering order and in 2 random permutations -> settings (root, alloc path). Oracle: a \
         reference translator source definition -> expected item (non-skipped parameters in declaration order, source field types with the \
         documented normalisations, one trailing marker naming exactly the otherwise unused parameters); the item emitted for each definition's \
         path must equal it up to a consistent renaming of the generic parameters, for every registry order. Non-coincidence-free programs are \
         discarded (counted). Non-trivial: definition with >= 1 parameter used in a nested position and >= 2 instantiations; distinct by hash of \
         (program text, definition)."
            .into()
    }
    fn self_check(&self) -> Result<(), String> {
        crate::realcorpus::self_check(9, 20)
    }
    fn strata(&self, tier: Tier) -> Vec<Stratum> {
        vec![Stratum::random("programs", tier.pick(30_000, 800_000), tier.pick(384, 768))]
    }
    fn eval(&self, _stratum: &str, input: Input, stats: &mut Stats) -> Result<(), Failure> {
        let Input::Tape(bytes) = input else {
            return Err(Failure::infra("C05 expects tapes"));
        };
        let mut t = Tape::new(bytes);
        let opts = GenOpts::plain();
        let Some(case) = make_case(&mut t, &opts) else {
            stats.count("discard_too_large", 1);
            return Ok(());
        };
        if !case.cf.all_cf {
            stats.count("discard_non_cf", 1);
            return Ok(());
        }
        stats.count("cf_programs", 1);
        let prog = &case.gen.prog;
        let mut spec = SettingsSpec::default();
        spec.root = pick_root(&mut t, &case.low.registry);
        spec.alloc = match t.choose(3) {
            0 => None,
            1 => Some("::alloc".into()),
            _ => Some("::some_crate::alloc".into()),
        };
        let text = prog.to_text();
        // which definitions are instantiated, and how often
        let mut inst_count: BTreeMap<usize, usize> = BTreeMap::new();
        for i in &case.low.insts {
            *inst_count.entry(i.def).or_insert(0) += 1;
        }
        for round in 0..3 {
            let reg = if round == 0 {
                case.low.registry.clone()
            } else {
                let perm = gen_perm(&mut t, case.low.registry.types.len());
                permute_registry(&case.low.registry, &perm)
            };
            let decoded = || json!({"program": text, "settings": spec.to_json(), "registry": registry_json(&reg), "round": round});
            let out = match run_typegen(&reg, &spec) {
                GenResult::Ok(o) => o,
                GenResult::Err(e) => {
                    return Err(Failure::new(format!("generation of a coincidence-free program failed: {e:?}"))
                        .sig("c05:generation-error")
                        .with(decoded()))
                }
                GenResult::Panic(p) => return Err(Failure::new(format!("panic: {p}")).sig("c05:panic").with(decoded())),
                GenResult::Unparsable(e, _) => return Err(Failure::new(e).sig("c05:unparsable").with(decoded())),
            };
            let mut seen_paths = BTreeSet::new();
            for (d, n) in &inst_count {
                let def = &prog.defs[*d];
                let mut full = vec![spec.root.clone()];
                full.extend(def.path.iter().cloned());
                if !seen_paths.insert(full.clone()) {
                    continue;
                }
                let Some(item) = out.gm.items.get(&full) else {
                    return Err(Failure::new(format!("no item emitted for definition {}", def.path.join("::")))
                        .sig("c05:item-missing")
                        .with(json!({"case": decoded(), "tokens": out.tokens})));
                };
                if let Err(m) = source_round_trip(prog, *d, item, &spec) {
                    return Err(Failure::new(m)
                        .sig("c05:not-the-source-definition")
                        .with(json!({"case": decoded(), "tokens": out.tokens})));
                }
                if round == 0 {
                    stats.count("definitions_checked", 1);
                    let nested_use = def.all_fields().iter().any(|f| !matches!(f.ty, Ty::Param(_)) && f.ty.mentions_param());
                    if *n >= 2 && nested_use {
                        stats.nontrivial(mix(&[hash_str(&text), *d as u64]));
                        stats.sample("generic_definition", || json!({"program": text, "definition": def.path.join("::")}));
                    }
                }
            }
            // exactly one item per definition path: no extra items besides the definitions and bit order markers
            let def_paths: BTreeSet<Vec<String>> = inst_count.keys().map(|d| prog.defs[*d].path.clone()).collect();
            for p in out.gm.items.keys() {
                let rel = p[1..].to_vec();
                if !def_paths.contains(&rel) && rel.first().map(|s| s != "bitvec").unwrap_or(true) {
                    return Err(Failure::new(format!("item {} does not correspond to any source definition", p.join("::")))
                        .sig("c05:extra-item")
                        .with(json!({"case": decoded(), "tokens": out.tokens})));
                }
            }
        }
        for l in &case.gen.labels {
            stats.label(l);
        }
        Ok(())
    }
}
