//! C01 Generated types are wire-faithful to the registry.

use crate::case::*;
use crate::engine::*;
use crate::gen::GenOpts;
use crate::lower::{permute_registry, registry_json};
use crate::settings::{gen_settings, SettingsOpts, SettingsSpec};
use crate::shape::ShapeCtx;
use crate::tape::{hash_str, mix, Tape};
use scale_info::PortableRegistry;
use serde_json::json;

pub struct C01;

/// decode a permutation of 0..n from the tape (Fisher-Yates); identity when the tape is exhausted
pub fn gen_perm(t: &mut Tape, n: usize) -> Vec<u32> {
    let mut p: Vec<u32> = (0..n as u32).collect();
    for i in (1..n).rev() {
        let j = t.choose(i + 1);
        p.swap(i, j);
    }
    p
}

/// For every id of the registry: the type the generator names for it must have the registry's
/// shape. Returns the number of shape nodes compared.
pub fn check_all_ids(
    reg: &PortableRegistry,
    spec: &SettingsSpec,
    out: &GenOut,
    only: Option<&dyn Fn(u32) -> bool>,
) -> Result<u64, (u32, String, String)> {
    let settings = spec.build();
    let mut ctx = ShapeCtx::new(reg, &out.gm, spec);
    for ty in &reg.types {
        let id = ty.id;
        if let Some(f) = only {
            if !f(id) {
                continue;
            }
        }
        let toks = match resolve_tokens(reg, &settings, id) {
            Err(p) => return Err((id, format!("resolve_type_path({id}) panicked: {p}"), "panic".into())),
            Ok(Err(e)) => {
                return Err((
                    id,
                    format!("resolve_type_path({id}) failed with {e:?} although generation succeeded"),
                    "resolve-error".into(),
                ))
            }
            Ok(Ok(t)) => t,
        };
        let gty: syn::Type = match syn::parse_str(&toks) {
            Ok(t) => t,
            Err(e) => {
                return Err((
                    id,
                    format!("resolve_type_path({id}) = `{toks}` is not a Rust type: {e}"),
                    "unparsable-type".into(),
                ))
            }
        };
        if let Err(m) = ctx.bisim(id, &gty, &format!("id{id}")) {
            return Err((id, format!("shape of `{toks}` differs from registry type {id}: {m}"), "shape".into()));
        }
    }
    Ok(ctx.nodes_compared)
}

pub fn classify_panic(reg: &PortableRegistry, msg: &str) -> String {
    if msg.contains("Unknown prelude type 'Duration'") {
        return "prelude:duration-unknown".into();
    }
    if msg.contains("index out of bounds") && msg.contains("typegen/mod.rs") {
        let user_cow = reg.types.iter().any(|t| {
            t.ty.path.segments.len() >= 2
                && t.ty.path.segments.last().map(|s| s == "Cow").unwrap_or(false)
                && t.ty.type_params.is_empty()
        });
        if user_cow {
            return "cow:ident-without-namespace-check".into();
        }
    }
    "generator:panic".into()
}

pub fn has_user_cow(reg: &PortableRegistry) -> bool {
    reg.types.iter().any(|t| {
        t.ty.path.segments.len() >= 2 && t.ty.path.segments.last().map(|s| s == "Cow").unwrap_or(false)
    })
}

/// run a constructed program through the wire-fidelity oracle (used by finding probes)
pub fn wire_probe(prog: &crate::program::Program, sig: &str) -> Result<(), Failure> {
    let low = crate::lower::lower(prog);
    let spec = SettingsSpec::default();
    let text = prog.to_text();
    match run_typegen(&low.registry, &spec) {
        GenResult::Ok(out) => check_all_ids(&low.registry, &spec, &out, None)
            .map(|_| ())
            .map_err(|(id, msg, _)| Failure::new(msg).sig(sig).with(json!({"program": text, "id": id, "tokens": out.tokens}))),
        GenResult::Err(e) => Err(Failure::new(format!("generation failed: {e:?}")).sig(sig).with(json!({"program": text}))),
        GenResult::Panic(p) => Err(Failure::new(format!("generation panicked: {p}")).sig(sig).with(json!({"program": text}))),
        GenResult::Unparsable(e, t) => Err(Failure::new(e).sig(sig).with(json!({"program": text, "tokens": t}))),
    }
}

fn probe_prog(fields: Vec<(&str, crate::program::Ty)>, extra: Vec<crate::program::Def>, params: Vec<&str>, roots_args: Vec<Vec<crate::program::Ty>>) -> crate::program::Program {
    use crate::program::*;
    let mut defs = extra;
    let idx = defs.len();
    defs.push(Def {
        path: vec!["krate".into(), "Probe".into()],
        params: params.iter().map(|n| ParamDecl { name: n.to_string(), skipped: false, config: false, compactable: false, bitstore: false, bitorder: false }).collect(),
        docs: vec![],
        body: Body::Struct(Fields::Named(
            fields
                .into_iter()
                .map(|(n, t)| FieldDef { name: Some(n.into()), ty: t, compact_attr: false, docs: vec![] })
                .collect(),
        )),
        config_inner: None,
    });
    Program {
        name_style: 0,
        defs,
        roots: roots_args.into_iter().map(|a| Ty::Def(idx, a)).collect(),
    }
}

impl Property for C01 {
    fn probes(&self) -> Vec<Probe> {
        use crate::program::*;
        vec![
            Probe {
                signature: "prelude:duration-unknown",
                what: "a registry containing core::time::Duration",
                run: Box::new(|| {
                    wire_probe(&probe_prog(vec![("d", Ty::Duration)], vec![], vec![], vec![vec![]]), "prelude:duration-unknown")
                }),
            },
            Probe {
                signature: "cow:ident-without-namespace-check",
                what: "user types whose last path segment is Cow",
                run: Box::new(|| {
                    let cow_unit = Def { path: vec!["farm".into(), "Cow".into()], params: vec![], docs: vec![], body: Body::Struct(Fields::Unit), config_inner: None };
                    let cow_gen = Def {
                        path: vec!["barn".into(), "Cow".into()],
                        params: vec![ParamDecl { name: "T".into(), skipped: false, config: false, compactable: false, bitstore: false, bitorder: false }],
                        docs: vec![],
                        body: Body::Struct(Fields::Named(vec![
                            FieldDef { name: Some("a".into()), ty: Ty::Prim(Prim::U8), compact_attr: false, docs: vec![] },
                            FieldDef { name: Some("b".into()), ty: Ty::Param(0), compact_attr: false, docs: vec![] },
                        ])),
                        config_inner: None,
                    };
                    wire_probe(
                        &probe_prog(
                            vec![("x", Ty::Def(0, vec![])), ("y", Ty::Def(1, vec![Ty::Prim(Prim::U32)]))],
                            vec![cow_unit, cow_gen],
                            vec![],
                            vec![vec![]],
                        ),
                        "cow:ident-without-namespace-check",
                    )
                }),
            },
            Probe {
                signature: "cow:nested-cow-unwrapped-once",
                what: "Cow<'static, Cow<'static, str>>",
                run: Box::new(|| {
                    wire_probe(
                        &probe_prog(vec![("c", Ty::Cow(Box::new(Ty::Cow(Box::new(Ty::StrSlice)))))], vec![], vec![], vec![vec![]]),
                        "cow:nested-cow-unwrapped-once",
                    )
                }),
            },
            Probe {
                signature: "cow:parameter-not-recovered",
                what: "struct S<T> { a: Cow<'static, T> } with two instantiations",
                run: Box::new(|| {
                    wire_probe(
                        &probe_prog(
                            vec![("a", Ty::Cow(Box::new(Ty::Param(0))))],
                            vec![],
                            vec!["T"],
                            vec![vec![Ty::Prim(Prim::Char)], vec![Ty::Prim(Prim::Str)]],
                        ),
                        "cow:parameter-not-recovered",
                    )
                }),
            },
            // regression probes distilled from seeded changes (no entry in known_findings.json: they must pass)
            Probe {
                signature: "regress:bit-store-order-parameters",
                what: "struct G<S: BitStore, O: BitOrder> { bits: BitVec<S, O>, o: Option<BitVec<S, O>>, len: u32 } with three instantiations, both registry orders",
                run: Box::new(|| {
                    for rev in [false, true] {
                        let mut prog = probe_prog(
                            vec![
                                ("bits", Ty::BitVecP(Box::new(Ty::Param(0)), Box::new(Ty::Param(1)))),
                                ("o", Ty::Opt(Box::new(Ty::BitVecP(Box::new(Ty::Param(0)), Box::new(Ty::Param(1)))))),
                                ("len", Ty::Prim(Prim::U32)),
                            ],
                            vec![],
                            vec!["S", "O"],
                            vec![
                                vec![Ty::Prim(Prim::U8), Ty::BitOrder(false)],
                                vec![Ty::Prim(Prim::U16), Ty::BitOrder(true)],
                                vec![Ty::Prim(Prim::U64), Ty::BitOrder(false)],
                            ],
                        );
                        prog.defs[0].params[0].bitstore = true;
                        prog.defs[0].params[1].bitorder = true;
                        if rev {
                            prog.roots.reverse();
                        }
                        wire_probe(&prog, "regress:bit-store-order-parameters")?;
                    }
                    Ok(())
                }),
            },
            Probe {
                signature: "regress:compact-attribute-on-parameter",
                what: "struct H<N: HasCompact, X> { #[codec(compact)] number: N, c: Compact<N>, x: Vec<X> } with two instantiations, both registry orders",
                run: Box::new(|| {
                    for rev in [false, true] {
                        let mut prog = probe_prog(
                            vec![
                                ("number", Ty::Param(0)),
                                ("c", Ty::Compact(Box::new(Ty::Param(0)))),
                                ("x", Ty::Seq(SeqKind::Vec, Box::new(Ty::Param(1)))),
                            ],
                            vec![],
                            vec!["N", "X"],
                            vec![vec![Ty::Prim(Prim::U32), Ty::Prim(Prim::I8)], vec![Ty::Prim(Prim::U64), Ty::Prim(Prim::I16)]],
                        );
                        prog.defs[0].params[0].compactable = true;
                        if let Body::Struct(Fields::Named(f)) = &mut prog.defs[0].body {
                            f[0].compact_attr = true;
                        }
                        if rev {
                            prog.roots.reverse();
                        }
                        wire_probe(&prog, "regress:compact-attribute-on-parameter")?;
                    }
                    Ok(())
                }),
            },
        ]
    }
    fn id(&self) -> &'static str {
        "C01"
    }
    fn rule(&self) -> String {
        "tape -> source program (structs/enums in nested modules, generics with 1-3 instantiations, skipped params, assoc types, \
         two-versions, look-alike names, compact/bitvec/Cow/Box/collections/recursion) -> lowered to a PortableRegistry exactly as \
         scale-info does (self-checked against real scale-info each run) -> optional consistent permutation of the entries -> settings \
         (root name, alloc path, docs, derives/attributes, compact-as) -> generate_types_mod; for EVERY type id the type named by \
         resolve_type_path(id) is interpreted inside the parsed emitted module and compared by coinductive shape equality with the \
         registry's type. Non-coincidence-free programs are discarded (counted). Non-trivial: (registry, settings, id) where the id \
         is a struct/enum with an emitted item and the registry has >= 1 of: generic instantiated >= 2x, compact, bit sequence, Cow, \
         Box, recursion, nested module; distinct by hash of (registry JSON, settings, id)."
            .into()
    }
    fn assumptions(&self) -> Vec<String> {
        vec![
            "the harness' model of std/scale-info shapes for external paths (Option, Result, BTreeMap, Range, NonZero*, Duration ...) is right".into(),
            "substitute targets are assumed wire-faithful to the type they replace".into(),
            "byte-level clause is implied by shape equality; it is exercised for real by the rustc stage of the thorough tier".into(),
        ]
    }
    fn self_check(&self) -> Result<(), String> {
        crate::realcorpus::self_check(7, 40)
    }
    fn strata(&self, tier: Tier) -> Vec<Stratum> {
        vec![
            Stratum::random("programs", tier.pick(40_000, 1_000_000), tier.pick(384, 768)),
            Stratum::random("polkadot_certified", tier.pick(60, 1_500), 96),
        ]
    }
    /// rustc stage: emitted modules are compiled with parity-scale-codec's derives and every registry
    /// type decodes valid encodings (independent encoder, cross-checked with scale-value), consumes
    /// all input and re-encodes identically
    fn extra(&self, tier: Tier, seed: u64, stats: &mut Stats) -> Result<(), Failure> {
        let (batches, size, encs) = tier.pick((1, 60, 4), (12, 150, 6));
        for b in 0..batches {
            let (cases, counters) = crate::rustc_tier::make_cases(seed, 0xC01 + b as u64, size, true, encs);
            for (k, v) in counters {
                if !k.starts_with("label:") {
                    stats.count(&format!("rustc_{k}"), v);
                }
            }
            let n = crate::rustc_tier::run_batch(&format!("C01-{b}"), &cases, true)?;
            stats.count("rustc_cases_compiled", cases.len() as u64);
            stats.count("rustc_byte_round_trips", n);
        }
        Ok(())
    }
    fn eval(&self, stratum: &str, input: Input, stats: &mut Stats) -> Result<(), Failure> {
        let Input::Tape(bytes) = input else {
            return Err(Failure::infra("C01 expects tapes"));
        };
        match stratum {
            "programs" => {
                let mut t = Tape::new(bytes);
                // same-path families of different shape (associated types, two versions) belong to C03
                let opts = GenOpts::plain();
                let Some(case) = make_case(&mut t, &opts) else {
                    stats.count("discard_too_large", 1);
                    return Ok(());
                };
                if !case.cf.all_cf {
                    stats.count("discard_non_cf", 1);
                    return Ok(());
                }
                stats.count("cf_programs", 1);
                let spec = gen_settings(&mut t, &case.low.registry, &SettingsOpts::wire());
                let permuted = t.chance(100);
                let reg = if permuted {
                    stats.label("permuted_registry");
                    let perm = gen_perm(&mut t, case.low.registry.types.len());
                    permute_registry(&case.low.registry, &perm)
                } else {
                    case.low.registry.clone()
                };
                let decoded = || {
                    json!({"program": case.gen.prog.to_text(), "settings": spec.to_json(), "registry": registry_json(&reg)})
                };
                let out = match run_typegen(&reg, &spec) {
                    GenResult::Ok(o) => o,
                    GenResult::Err(ErrKind::DuplicateTypePath(_)) => {
                        stats.label("duplicate_type_path_error");
                        return Ok(());
                    }
                    GenResult::Err(e) => {
                        // not a wire-fidelity question (C10 decides whether this error is allowed)
                        stats.label("other_generation_error");
                        let _ = e;
                        return Ok(());
                    }
                    GenResult::Panic(p) => {
                        // "whenever generation succeeds": a panic is C10's business, but it hides
                        // everything behind it, so classify narrowly and report
                        let sig = classify_panic(&reg, &p);
                        return Err(Failure::new(format!("generate_types_mod panicked: {p}"))
                            .sig(sig)
                            .with(decoded()));
                    }
                    GenResult::Unparsable(e, toks) => {
                        return Err(Failure::new(e)
                            .sig("output-unparsable")
                            .with(json!({"case": decoded(), "tokens": toks})));
                    }
                };
                for l in &case.gen.labels {
                    stats.label(l);
                }
                let case_hash = mix(&[
                    hash_str(&registry_json(&reg).to_string()),
                    hash_str(&spec.to_json().to_string()),
                ]);
                match check_all_ids(&reg, &spec, &out, None) {
                    Ok(nodes) => {
                        stats.count("ids_checked", reg.types.len() as u64);
                        stats.count("shape_nodes_compared", nodes);
                    }
                    Err((id, msg, kind)) => {
                        let sig = if kind == "panic" {
                            classify_panic(&reg, &msg)
                        } else if has_user_cow(&reg) && kind == "shape" {
                            "cow:ident-without-namespace-check".to_string()
                        } else {
                            format!("c01:{kind}")
                        };
                        return Err(Failure::new(msg).sig(sig).with(json!({"case": decoded(), "id": id, "tokens": out.tokens})));
                    }
                }
                let interesting = ["nested_generic_ref", "compact_attr", "compact_type", "bitvec", "cow", "box", "recursion", "nested_modules"]
                    .iter()
                    .any(|l| case.gen.labels.contains(l))
                    || case.low.insts.len() > case.gen.prog.defs.len();
                if interesting {
                    for ty in &reg.types {
                        if ty.ty.path.segments.len() >= 2 {
                            stats.nontrivial(mix(&[case_hash, ty.id as u64]));
                        }
                    }
                    stats.sample("program_case", || {
                        json!({"program": case.gen.prog.to_text(), "settings": spec.to_json(), "types": reg.types.len(), "emitted": out.tokens})
                    });
                }
                Ok(())
            }
            "polkadot_certified" => {
                // real chain metadata: the full registry (tape empty) or a closed sub-registry; the shape
                // clause is evaluated for the ids the registry-only certificate of DESIGN.md 3.4 admits
                let mut t = Tape::new(bytes);
                let full = t.chance(40) || bytes.is_empty();
                let reg = if full {
                    crate::metadata::polkadot().clone()
                } else {
                    crate::metadata::sub_registry(&mut t, 25).0
                };
                let spec = gen_settings(&mut t, &reg, &SettingsOpts::wire());
                let cert = crate::cert::certify(&reg);
                let out = match run_typegen(&reg, &spec) {
                    GenResult::Ok(o) => o,
                    GenResult::Panic(p) => {
                        return Err(Failure::new(format!("panic on polkadot metadata: {p}"))
                            .sig("generator:panic")
                            .with(json!({"settings": spec.to_json(), "registry": registry_json(&reg)})))
                    }
                    _ => {
                        stats.label("polkadot_generation_error");
                        return Ok(());
                    }
                };
                let admitted: std::collections::BTreeSet<u32> =
                    reg.types.iter().map(|t| t.id).filter(|i| cert.admits(&reg, *i)).collect();
                stats.count("polkadot_ids_total", reg.types.len() as u64);
                stats.count("polkadot_ids_certified", admitted.len() as u64);
                stats.count("polkadot_family_entries", cert.certified.len() as u64);
                stats.count("polkadot_family_entries_certified", cert.certified.values().filter(|b| **b).count() as u64);
                let only = |i: u32| admitted.contains(&i);
                match check_all_ids(&reg, &spec, &out, Some(&only)) {
                    Ok(n) => stats.count("shape_nodes_compared", n),
                    Err((id, msg, kind)) => {
                        return Err(Failure::new(format!("polkadot metadata: {msg}"))
                            .sig(format!("c01:{kind}"))
                            .with(json!({"id": id, "settings": spec.to_json(), "registry": registry_json(&reg)})))
                    }
                }
                stats.label(if full { "polkadot_full" } else { "polkadot_subregistry" });
                let h = hash_str(&format!("{}{}", registry_json(&reg), spec.to_json()));
                for i in admitted.iter().take(2000) {
                    if reg.resolve(*i).map(|t| t.path.segments.len() >= 2).unwrap_or(false) {
                        stats.nontrivial(mix(&[h, *i as u64]));
                    }
                }
                Ok(())
            }
            _ => Err(Failure::infra(format!("unknown stratum {stratum}"))),
        }
    }
}
