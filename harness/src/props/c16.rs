//! C16 Settings builders behave as set/map accumulators over any call history.

use crate::engine::*;
use crate::genmod::{nospace, tokens_nospace};
use crate::lower::lower;
use crate::program::*;
use crate::settings::{parse_attr, ATTR_POOL, DERIVE_POOL};
use crate::tape::{hash_str, Tape};
use scale_info::{PortableRegistry, TypeDef};
use scale_typegen::typegen::error::TypeSubstitutionErrorKind;
use scale_typegen::typegen::settings::substitutes::{absolute_path, AbsolutePath};
use scale_typegen::TypeGeneratorSettings;
use serde_json::{json, Value};
use std::collections::{BTreeMap, BTreeSet};
use std::sync::OnceLock;

pub struct C16;

// ---------------------------------------------------------------------------------------------
// the fixed probe registry: chain, diamond, cycle, one generic

fn probe_program() -> Program {
    let f = |n: &str, t: Ty| FieldDef {
        name: Some(n.into()),
        ty: t,
        compact_attr: false,
        docs: vec![],
    };
    let st = |name: &str, params: Vec<&str>, fields: Vec<FieldDef>| Def {
        path: vec!["p".into(), name.into()],
        params: params
            .into_iter()
            .map(|n| ParamDecl {
                name: n.into(),
                skipped: false,
                config: false,
                compactable: false,
                bitstore: false,
                bitorder: false,
            })
            .collect(),
        docs: vec![],
        body: Body::Struct(Fields::Named(fields)),
        config_inner: None,
    };
    let d = |i: usize| Ty::Def(i, vec![]);
    // indices: 0 A, 1 B, 2 C, 3 D, 4 R, 5 S, 6 G, 7 H, 8 Lone
    Program {
        name_style: 0,
        defs: vec![
            st("A", vec![], vec![f("b", d(1)), f("c", d(2))]),
            st("B", vec![], vec![f("d", d(3))]),
            st("C", vec![], vec![f("d", Ty::Tuple(vec![d(3), Ty::Prim(Prim::U16)]))]),
            st("D", vec![], vec![f("x", Ty::Prim(Prim::U8))]),
            st(
                "R",
                vec![],
                vec![
                    f("next", Ty::Opt(Box::new(Ty::Ptr(PtrKind::Box, Box::new(d(4)))))),
                    f("s", d(5)),
                ],
            ),
            st("S", vec![], vec![f("r", Ty::Seq(SeqKind::Vec, Box::new(d(4))))]),
            st("G", vec!["T"], vec![f("t", Ty::Param(0))]),
            st("H", vec![], vec![f("g", Ty::Def(6, vec![d(3)])), f("arr", Ty::Array(2, Box::new(d(8))))]),
            st("Lone", vec![], vec![f("x", Ty::Prim(Prim::U32))]),
        ],
        roots: vec![d(0), d(4), d(7)],
    }
}

struct ProbeInfo {
    reg: PortableRegistry,
    /// path (joined) -> set of paths reachable from the first entry with that path
    reach: BTreeMap<String, BTreeSet<String>>,
    /// path -> first id
    first_id: BTreeMap<String, u32>,
}

static PROBE: OnceLock<ProbeInfo> = OnceLock::new();

fn probe() -> &'static ProbeInfo {
    PROBE.get_or_init(|| {
        let low = lower(&probe_program());
        let reg = low.registry;
        let mut first_id = BTreeMap::new();
        for t in &reg.types {
            if t.ty.path.segments.len() >= 2 {
                first_id.entry(t.ty.path.segments.join("::")).or_insert(t.id);
            }
        }
        fn walk(reg: &PortableRegistry, id: u32, seen: &mut BTreeSet<u32>) {
            if !seen.insert(id) {
                return;
            }
            let t = reg.resolve(id).unwrap();
            for p in &t.type_params {
                if let Some(p) = p.ty {
                    walk(reg, p.id, seen);
                }
            }
            match &t.type_def {
                TypeDef::Composite(c) => c.fields.iter().for_each(|f| walk(reg, f.ty.id, seen)),
                TypeDef::Variant(v) => v
                    .variants
                    .iter()
                    .flat_map(|v| v.fields.iter())
                    .for_each(|f| walk(reg, f.ty.id, seen)),
                TypeDef::Sequence(s) => walk(reg, s.type_param.id, seen),
                TypeDef::Array(a) => walk(reg, a.type_param.id, seen),
                TypeDef::Tuple(tu) => tu.fields.iter().for_each(|f| walk(reg, f.id, seen)),
                TypeDef::Compact(c) => walk(reg, c.type_param.id, seen),
                _ => {}
            }
        }
        let mut reach = BTreeMap::new();
        for (p, id) in &first_id {
            let mut seen = BTreeSet::new();
            walk(&reg, *id, &mut seen);
            let paths: BTreeSet<String> = seen
                .iter()
                .map(|i| reg.resolve(*i).unwrap().path.segments.join("::"))
                .filter(|s| s.contains("::"))
                .collect();
            reach.insert(p.clone(), paths);
        }
        ProbeInfo { reg, reach, first_id }
    })
}

const PROBE_PATHS: [&str; 9] = ["p::A", "p::B", "p::C", "p::D", "p::R", "p::S", "p::G", "p::H", "p::Lone"];

// ---------------------------------------------------------------------------------------------
// operations

#[derive(Clone, Debug)]
enum Src {
    Plain(String),
    /// with angle generics made of plain idents (valid)
    Generic(String, Vec<String>),
    Paren(String),
    NonIdentArg(String, String),
    Empty,
}

#[derive(Clone, Debug)]
enum Tgt {
    Plain(String),
    Generic(String, Vec<String>),
    Relative(String),
    Paren(String),
    BadArg(String, String),
    Empty,
}

#[derive(Clone, Debug)]
enum Op {
    DerivesAll(Vec<String>),
    AttrsAll(Vec<String>),
    DerivesFor(String, Vec<String>, bool),
    AttrsFor(String, Vec<String>, bool),
    Insert(Src, Tgt),
    InsertIfNotExists(Src, Tgt),
    Extend(Vec<(Src, Tgt)>),
}

fn empty_path(leading: bool) -> syn::Path {
    syn::Path {
        leading_colon: if leading { Some(Default::default()) } else { None },
        segments: syn::punctuated::Punctuated::new(),
    }
}

fn paren_path(p: &str) -> syn::Path {
    // only trait bounds accept `Path(Args)` in syn 2
    syn::parse_str::<syn::TraitBound>(&format!("{p}(T)")).unwrap().path
}

impl Src {
    fn to_path(&self) -> syn::Path {
        match self {
            Src::Plain(p) => syn::parse_str(p).unwrap(),
            Src::Generic(p, a) => syn::parse_str(&format!("{p}<{}>", a.join(", "))).unwrap(),
            Src::Paren(p) => paren_path(p),
            Src::NonIdentArg(p, a) => syn::parse_str(&format!("{p}<{a}>")).unwrap(),
            Src::Empty => empty_path(false),
        }
    }
    fn key(&self) -> Vec<String> {
        self.to_path().segments.iter().map(|s| s.ident.to_string()).collect()
    }
}

impl Tgt {
    fn to_path(&self) -> syn::Path {
        match self {
            Tgt::Plain(p) | Tgt::Relative(p) => syn::parse_str(p).unwrap(),
            Tgt::Generic(p, a) => syn::parse_str(&format!("{p}<{}>", a.join(", "))).unwrap(),
            Tgt::Paren(p) => paren_path(p),
            Tgt::BadArg(p, a) => syn::parse_str(&format!("{p}<{a}>")).unwrap(),
            Tgt::Empty => empty_path(true),
        }
    }
}

#[derive(Clone, Debug, PartialEq, Eq)]
enum Kind {
    ExpectedAbsolutePath,
    EmptySubstitutePath,
    ExpectedAngleBracketGenerics,
    InvalidFromType,
    InvalidToType,
    Other(String),
}

fn kind_of(k: &TypeSubstitutionErrorKind) -> Kind {
    match k {
        TypeSubstitutionErrorKind::ExpectedAbsolutePath => Kind::ExpectedAbsolutePath,
        TypeSubstitutionErrorKind::EmptySubstitutePath => Kind::EmptySubstitutePath,
        TypeSubstitutionErrorKind::ExpectedAngleBracketGenerics => Kind::ExpectedAngleBracketGenerics,
        TypeSubstitutionErrorKind::InvalidFromType => Kind::InvalidFromType,
        TypeSubstitutionErrorKind::InvalidToType => Kind::InvalidToType,
        other => Kind::Other(format!("{other:?}")),
    }
}

/// the documented outcome of one (source, target) pair
fn expected(src: &Src, tgt: &Tgt) -> Result<(), Kind> {
    if matches!(tgt, Tgt::Relative(_)) {
        return Err(Kind::ExpectedAbsolutePath);
    }
    if matches!(src, Src::Empty) || matches!(tgt, Tgt::Empty) {
        return Err(Kind::EmptySubstitutePath);
    }
    match src {
        Src::Paren(_) => return Err(Kind::ExpectedAngleBracketGenerics),
        Src::NonIdentArg(..) => return Err(Kind::InvalidFromType),
        _ => {}
    }
    match tgt {
        Tgt::Paren(_) => Err(Kind::ExpectedAngleBracketGenerics),
        Tgt::BadArg(..) => Err(Kind::InvalidToType),
        _ => Ok(()),
    }
}

fn gen_src(t: &mut Tape) -> Src {
    let base = if t.chance(40) {
        "q::Unknown".to_string()
    } else {
        PROBE_PATHS[t.choose(PROBE_PATHS.len())].to_string()
    };
    match t.weighted(&[8, 4, 1, 1, 1]) {
        0 => Src::Plain(base),
        1 => {
            let n = 1 + t.choose(2);
            Src::Generic(base, (0..n).map(|i| ["T", "U", "X"][(i + t.choose(2)) % 3].to_string()).collect())
        }
        2 => Src::Paren(base),
        3 => Src::NonIdentArg(
            base,
            // `::T` (leading colon) and `<A>::C` (qualified self) are single segments but not plain identifiers
            ["::abs::T", "Vec<T>", "'a", "(A, B)", "a::B", "::T", "<A>::C"][t.choose(7)].to_string(),
        ),
        _ => Src::Empty,
    }
}

fn gen_tgt(t: &mut Tape) -> Tgt {
    let n = t.choose(6);
    let base = if t.chance(60) {
        format!("crate::t::T{n}")
    } else {
        format!("::t::T{n}")
    };
    match t.weighted(&[8, 4, 2, 1, 1, 1]) {
        0 => Tgt::Plain(base),
        1 => {
            let a = ["T", "U", "::core::primitive::u8", "::t::W<T>", "X"];
            let k = 1 + t.choose(2);
            Tgt::Generic(base, (0..k).map(|_| a[t.choose(a.len())].to_string()).collect())
        }
        2 => Tgt::Relative(format!("t::Rel{n}")),
        3 => Tgt::Paren(base),
        4 => Tgt::BadArg(base, ["'a", "(A, B)", "[u8; 3]", "&T"][t.choose(4)].to_string()),
        _ => Tgt::Empty,
    }
}

fn pick(t: &mut Tape, pool: &[&str], max: usize) -> Vec<String> {
    let n = t.choose(max + 1);
    (0..n).map(|_| pool[t.choose(pool.len())].to_string()).collect()
}

fn gen_history(t: &mut Tape) -> Vec<Op> {
    let n = t.choose(41);
    let mut ops = vec![];
    for _ in 0..n {
        let op = match t.weighted(&[2, 1, 4, 2, 4, 2, 1]) {
            0 => Op::DerivesAll(pick(t, &DERIVE_POOL, 3)),
            1 => Op::AttrsAll(pick(t, &ATTR_POOL, 2)),
            2 => Op::DerivesFor(
                PROBE_PATHS[t.choose(PROBE_PATHS.len())].to_string(),
                pick(t, &DERIVE_POOL, 3),
                t.flag(),
            ),
            3 => Op::AttrsFor(
                PROBE_PATHS[t.choose(PROBE_PATHS.len())].to_string(),
                pick(t, &ATTR_POOL, 2),
                t.flag(),
            ),
            4 => Op::Insert(gen_src(t), gen_tgt(t)),
            5 => Op::InsertIfNotExists(gen_src(t), gen_tgt(t)),
            _ => {
                let k = t.choose(4);
                Op::Extend(
                    (0..k)
                        .map(|_| {
                            let s = gen_src(t);
                            // relative targets cannot be passed to extend (rejected by the AbsolutePath conversion)
                            let mut g = gen_tgt(t);
                            if matches!(g, Tgt::Relative(_)) {
                                g = Tgt::Plain("::t::Fallback".into());
                            }
                            (s, g)
                        })
                        .collect(),
                )
            }
        };
        ops.push(op);
    }
    ops
}

// ---------------------------------------------------------------------------------------------
// model

#[derive(Default, Clone)]
struct Model {
    derives_all: BTreeSet<String>,
    attrs_all: BTreeSet<String>,
    specific: BTreeMap<String, (BTreeSet<String>, BTreeSet<String>)>,
    recursive: BTreeMap<String, (BTreeSet<String>, BTreeSet<String>)>,
    /// source key -> target path tokens (no spaces)
    subs: BTreeMap<Vec<String>, String>,
}

fn snapshot(s: &TypeGeneratorSettings) -> BTreeMap<Vec<String>, String> {
    s.substitutes
        .iter()
        .map(|(k, v)| (k.clone(), tokens_nospace(v.path())))
        .collect()
}

fn to_abs(t: &Tgt) -> Result<AbsolutePath, Kind> {
    absolute_path(t.to_path()).map_err(|e| kind_of(&e.kind))
}

struct Counters {
    overwrites: u32,
    if_absent_on_occupied: u32,
    rejected: u32,
    repeated_derive: u32,
}

fn run_history(ops: &[Op], check_each_prefix: bool, decoded: &dyn Fn() -> Value) -> Result<Counters, Failure> {
    let fail = |sig: &str, msg: String| Failure::new(msg).sig(sig).with(decoded());
    let mut settings = TypeGeneratorSettings::new();
    let mut m = Model::default();
    let mut c = Counters {
        overwrites: 0,
        if_absent_on_occupied: 0,
        rejected: 0,
        repeated_derive: 0,
    };
    for (i, op) in ops.iter().enumerate() {
        match op {
            Op::DerivesAll(d) => {
                settings
                    .derives
                    .add_derives_for_all(d.iter().map(|x| syn::parse_str::<syn::Path>(x).unwrap()));
                for x in d {
                    if !m.derives_all.insert(nospace(x)) {
                        c.repeated_derive += 1;
                    }
                }
            }
            Op::AttrsAll(a) => {
                settings.derives.add_attributes_for_all(a.iter().map(|x| parse_attr(x)));
                m.attrs_all.extend(a.iter().map(|x| nospace(x)));
            }
            Op::DerivesFor(p, d, rec) => {
                settings.derives.add_derives_for(
                    syn::parse_str(p).unwrap(),
                    d.iter().map(|x| syn::parse_str::<syn::Path>(x).unwrap()),
                    *rec,
                );
                let e = if *rec { &mut m.recursive } else { &mut m.specific };
                let set = &mut e.entry(p.clone()).or_default().0;
                for x in d {
                    if !set.insert(nospace(x)) {
                        c.repeated_derive += 1;
                    }
                }
            }
            Op::AttrsFor(p, a, rec) => {
                settings
                    .derives
                    .add_attributes_for(syn::parse_str(p).unwrap(), a.iter().map(|x| parse_attr(x)), *rec);
                let e = if *rec { &mut m.recursive } else { &mut m.specific };
                e.entry(p.clone()).or_default().1.extend(a.iter().map(|x| nospace(x)));
            }
            Op::Insert(s, t) | Op::InsertIfNotExists(s, t) => {
                let if_absent = matches!(op, Op::InsertIfNotExists(..));
                let before = snapshot(&settings);
                let want = expected(s, t);
                let got: Result<(), Kind> = match to_abs(t) {
                    Err(k) => Err(k),
                    Ok(abs) => {
                        let r = guard(|| {
                            if if_absent {
                                settings.substitutes.insert_if_not_exists(s.to_path(), abs)
                            } else {
                                settings.substitutes.insert(s.to_path(), abs)
                            }
                        })
                        .map_err(|p| fail("c16:panic", format!("op {i} {op:?} panicked: {p}")))?;
                        r.map_err(|e| kind_of(&e.kind))
                    }
                };
                if got != want {
                    return Err(fail(
                        "c16:error-kind",
                        format!("op {i} {op:?}: returned {got:?}, documented outcome is {want:?}"),
                    ));
                }
                if want.is_ok() {
                    let key = s.key();
                    let val = tokens_nospace(&t.to_path());
                    if m.subs.contains_key(&key) {
                        if if_absent {
                            c.if_absent_on_occupied += 1;
                        } else {
                            c.overwrites += 1;
                            m.subs.insert(key, val);
                        }
                    } else {
                        m.subs.insert(key, val);
                    }
                } else {
                    c.rejected += 1;
                    if snapshot(&settings) != before {
                        return Err(fail(
                            "c16:rejected-call-changed-rules",
                            format!("op {i} {op:?} was rejected but changed the rule map"),
                        ));
                    }
                }
            }
            Op::Extend(pairs) => {
                let mut elems = vec![];
                for (s, t) in pairs {
                    match to_abs(t) {
                        Ok(a) => elems.push((s.to_path(), a)),
                        Err(k) => return Err(Failure::infra(format!("extend target not absolute: {k:?}"))),
                    }
                }
                let r = guard(|| settings.substitutes.extend(elems))
                    .map_err(|p| fail("c16:panic", format!("op {i} {op:?} panicked: {p}")))?;
                // model: sequential inserts up to the first rejected element
                let mut want: Result<(), Kind> = Ok(());
                for (s, t) in pairs {
                    match expected(s, t) {
                        Ok(()) => {
                            let key = s.key();
                            if m.subs.contains_key(&key) {
                                c.overwrites += 1;
                            }
                            m.subs.insert(key, tokens_nospace(&t.to_path()));
                        }
                        Err(k) => {
                            c.rejected += 1;
                            want = Err(k);
                            break;
                        }
                    }
                }
                let got = r.map_err(|e| kind_of(&e.kind));
                if got != want {
                    return Err(fail(
                        "c16:error-kind",
                        format!("op {i} {op:?}: returned {got:?}, documented outcome is {want:?}"),
                    ));
                }
            }
        }
        // rule map equals the model after every step
        let snap = snapshot(&settings);
        if snap != m.subs {
            return Err(fail(
                "c16:rule-map",
                format!("after op {i} {op:?}: rules are {snap:?}, model says {:?}", m.subs),
            ));
        }
        for k in m.subs.keys() {
            if !settings.substitutes.contains(k) {
                return Err(fail("c16:contains", format!("contains({k:?}) is false after op {i}")));
            }
        }
        if check_each_prefix || i + 1 == ops.len() {
            check_output(&settings, &m, decoded)?;
        }
    }
    if ops.is_empty() {
        check_output(&settings, &m, decoded)?;
    }
    Ok(c)
}

fn check_output(settings: &TypeGeneratorSettings, m: &Model, decoded: &dyn Fn() -> Value) -> Result<(), Failure> {
    let fail = |sig: &str, msg: String| Failure::new(msg).sig(sig).with(decoded());
    let info = probe();
    let r = guard(|| {
        use scale_typegen::typegen::ir::ToTokensWithSettings;
        scale_typegen::TypeGenerator::new(&info.reg, settings)
            .generate_types_mod()
            .map(|x| x.to_token_stream(settings).to_string())
    })
    .map_err(|p| fail("c16:panic", format!("generation after the history panicked: {p}")))?;
    let toks = r.map_err(|e| fail("c16:generation-error", format!("generation after the history failed: {e}")))?;
    let gm = crate::genmod::parse(&toks).map_err(|e| fail("c16:unparsable", e))?;
    for p in PROBE_PATHS {
        let key: Vec<String> = p.split("::").map(|s| s.to_string()).collect();
        let mut full = vec![gm.root.clone()];
        full.extend(key.iter().cloned());
        let item = gm.items.get(&full);
        if m.subs.contains_key(&key) {
            if item.is_some() {
                return Err(fail("c16:substituted-type-defined", format!("{p} has a substitute but is still defined")));
            }
            // the active rule is the model's: the resolved path starts with the target path
            let id = info.first_id[p];
            let got = guard(|| {
                use scale_typegen::typegen::ir::ToTokensWithSettings;
                scale_typegen::TypeGenerator::new(&info.reg, settings)
                    .resolve_type_path(id)
                    .map(|x| x.to_token_stream(settings).to_string())
            })
            .map_err(|p| fail("c16:panic", format!("resolve panicked: {p}")))?
            .map_err(|e| fail("c16:generation-error", format!("resolve failed: {e}")))?;
            let want = m.subs[&key].split('<').next().unwrap().to_string();
            if !nospace(&got).starts_with(&want) {
                return Err(fail(
                    "c16:active-rule",
                    format!("{p} resolves to `{got}` but the model's rule has target {}", m.subs[&key]),
                ));
            }
            continue;
        }
        let Some(item) = item else {
            return Err(fail("c16:item-missing", format!("{p} is not defined in the output")));
        };
        let mut want_d = m.derives_all.clone();
        let mut want_a = m.attrs_all.clone();
        if let Some((d, a)) = m.specific.get(p) {
            want_d.extend(d.iter().cloned());
            want_a.extend(a.iter().cloned());
        }
        for (anc, (d, a)) in &m.recursive {
            if info.reach.get(anc).map(|r| r.contains(p)).unwrap_or(false) {
                want_d.extend(d.iter().cloned());
                want_a.extend(a.iter().cloned());
            }
        }
        let got_d: BTreeSet<String> = item.derives.iter().cloned().collect();
        let got_a: BTreeSet<String> = item.attrs.iter().cloned().collect();
        if got_d != want_d {
            return Err(fail("c16:derives", format!("{p}: derives {got_d:?}, model {want_d:?}")));
        }
        if got_a != want_a {
            return Err(fail("c16:attributes", format!("{p}: attributes {got_a:?}, model {want_a:?}")));
        }
        if got_d.len() != item.derives.len() || got_a.len() != item.attrs.len() {
            return Err(fail("c16:duplicates", format!("{p}: duplicate derives/attributes in the output")));
        }
    }
    Ok(())
}

impl Property for C16 {
    fn id(&self) -> &'static str {
        "C16"
    }
    fn rule(&self) -> String {
        "tape -> history of 0..40 public builder calls (add_derives_for_all, add_attributes_for_all, add_derives_for / add_attributes_for \
         specific or recursive, substitutes insert / insert_if_not_exists / extend with valid and invalid arguments: relative target, empty \
         path, parenthesised generics, non-ident source argument, lifetime/tuple/array/reference target argument) on the paths of a fixed \
         probe registry (chain, diamond, cycle, generic). Model-based oracle (state machine): sets for global/specific/recursive \
         registrations, map source path -> last accepted rule with the insert-if-absent exception; after every step the rule map \
         (iter/contains) equals the model and a rejected call returned the documented error kind and changed nothing; after the history \
         (thorough: after every prefix) the derives/attributes of every probe item equal the model's union and substituted types resolve to \
         the model's rule. Non-trivial: history with >= 1 overwrite or insert-if-absent on an occupied key, >= 1 rejected call and >= 1 \
         repeated derive registration; distinct by hash of the history."
            .into()
    }
    fn strata(&self, tier: Tier) -> Vec<Stratum> {
        vec![Stratum::random("histories", tier.pick(150_000, 3_000_000), 512)]
    }
    fn eval(&self, _stratum: &str, input: Input, stats: &mut Stats) -> Result<(), Failure> {
        let Input::Tape(bytes) = input else {
            return Err(Failure::infra("C16 expects tapes"));
        };
        let mut t = Tape::new(bytes);
        let ops = gen_history(&mut t);
        let text: Vec<String> = ops.iter().map(|o| format!("{o:?}")).collect();
        let decoded = || json!({"history": text});
        let tier_prefix = std::env::var("VERIF_C16_PREFIXES").is_ok();
        let c = run_history(&ops, tier_prefix, &decoded)?;
        stats.count("ops", ops.len() as u64);
        stats.count("rejected_calls", c.rejected as u64);
        stats.count("overwrites", c.overwrites as u64);
        if c.if_absent_on_occupied > 0 {
            stats.label("insert_if_absent_on_occupied_key");
        }
        if (c.overwrites > 0 || c.if_absent_on_occupied > 0) && c.rejected > 0 && c.repeated_derive > 0 {
            stats.nontrivial(hash_str(&text.join("|")));
            stats.sample("history", || json!({"history": text}));
        }
        Ok(())
    }
}
