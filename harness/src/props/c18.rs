//! C18 Standalone structs built from a variant's field list are wire-faithful.

use crate::case::*;
use crate::engine::*;
use crate::gen::GenOpts;
use crate::genmod::{self, tokens_nospace, GFields, GKind};
use crate::lower::registry_json;
use crate::settings::{gen_settings, SettingsOpts, SettingsSpec};
use crate::shape::ShapeCtx;
use crate::tape::{hash_str, mix, Tape};
use scale_info::{form::PortableForm, Field, PortableRegistry, TypeDef, TypeDefPrimitive};
use scale_typegen::typegen::ir::type_ir::CompositeIR;
use scale_typegen::typegen::ir::ToTokensWithSettings;
use scale_typegen::typegen::type_params::TypeParameters;
use scale_typegen::TypeGenerator;
use serde_json::{json, Value};
use std::collections::BTreeSet;

pub struct C18;

/// the field's wire type is an unsigned integer <= 128 bits (prelude Cow is transparent)
pub fn is_uint_field(reg: &PortableRegistry, f: &Field<PortableForm>) -> bool {
    let mut id = f.ty.id;
    for _ in 0..32 {
        let Some(t) = reg.resolve(id) else { return false };
        if t.path.segments.len() == 1 && t.path.segments[0] == "Cow" {
            match t.type_params.first().and_then(|p| p.ty) {
                Some(p) => {
                    id = p.id;
                    continue;
                }
                None => return false,
            }
        }
        return matches!(
            &t.type_def,
            TypeDef::Primitive(
                TypeDefPrimitive::U8
                    | TypeDefPrimitive::U16
                    | TypeDefPrimitive::U32
                    | TypeDefPrimitive::U64
                    | TypeDefPrimitive::U128
            )
        );
    }
    false
}

pub fn is_boxed_field(f: &Field<PortableForm>) -> bool {
    f.type_name.as_deref().map(|n| n.contains("Box<")).unwrap_or(false)
}

/// one field list (a struct's or a variant's) through the public composite API
#[allow(clippy::too_many_arguments)]
fn check_field_list(
    reg: &PortableRegistry,
    spec: &SettingsSpec,
    out: &GenOut,
    name: &str,
    fields: &[Field<PortableForm>],
    emitted: &GFields,
    ctx: &mut ShapeCtx,
    at: &str,
) -> Result<(), String> {
    let settings = spec.build();
    let toks = guard(|| {
        let g = TypeGenerator::new(reg, &settings);
        let mut tp = TypeParameters::from_scale_info(&[]);
        let kind = g.create_composite_ir_kind(fields, &mut tp).map_err(|e| e.to_string())?;
        let ident: proc_macro2::Ident = syn::parse_str(name).map_err(|e| e.to_string())?;
        let comp = CompositeIR::new(ident, kind, Default::default());
        Ok::<String, String>(g.upcast_composite(&comp).to_token_stream(&settings).to_string())
    })
    .map_err(|p| format!("{at}: composite API panicked: {p}"))?
    .map_err(|e| format!("{at}: composite API failed although the module was generated: {e}"))?;
    let file = genmod::parse(&format!("pub mod {} {{ use super::{}; {} }}", out.gm.root, out.gm.root, toks))
        .map_err(|e| format!("{at}: standalone struct does not parse: {e} :: {toks}"))?;
    let item = file
        .items
        .values()
        .next()
        .ok_or_else(|| format!("{at}: no struct emitted: {toks}"))?;
    if !item.generics.is_empty() {
        return Err(format!("{at}: standalone struct has generics: {toks}"));
    }
    let GKind::Struct(sf) = &item.kind else {
        return Err(format!("{at}: not a struct: {toks}"));
    };
    // same field names, order, type tokens (incl. Box) and compact markers as the emitted variant
    let (sl, el) = (sf.list(), emitted.list());
    let live: Vec<_> = el.iter().filter(|f| !f.skip).collect();
    if sl.len() != live.len() || sl.len() != fields.len() {
        return Err(format!(
            "{at}: {} registry fields, {} in the emitted variant, {} in the standalone struct",
            fields.len(),
            live.len(),
            sl.len()
        ));
    }
    match (sf, fields.is_empty(), fields.first().map(|f| f.name.is_some())) {
        (GFields::Unit, true, _) => {}
        (GFields::Named(_), false, Some(true)) => {}
        (GFields::Unnamed(_), false, Some(false)) => {}
        _ => return Err(format!("{at}: named/unnamed form differs from the registry: {toks}")),
    }
    for (i, ((s, e), r)) in sl.iter().zip(live.iter()).zip(fields.iter()).enumerate() {
        if s.name != r.name {
            return Err(format!("{at}: field {i} is named {:?}, registry says {:?}", s.name, r.name));
        }
        if tokens_nospace(&s.ty) != tokens_nospace(&e.ty) {
            return Err(format!(
                "{at}: field {i} has type {} but the enum's own variant has {}",
                tokens_nospace(&s.ty),
                tokens_nospace(&e.ty)
            ));
        }
        if s.compact != e.compact {
            return Err(format!("{at}: field {i} compact marker differs from the enum's variant"));
        }
        if !s.is_pub {
            return Err(format!("{at}: field {i} is not pub"));
        }
        // shape against the registry (a field without the marker must not stand for a Compact type
        // when codec attributes are on: bisim_field reports that as compact vs non-compact)
        // Without codec attributes the generated module documents that it drops compact markers (and
        // variant indices): the SCALE shape is then not claimed, the agreement with the enum's own
        // variant above still is.
        if spec.codec {
            ctx.bisim_field(r.ty.id, &s.ty, s.compact, &format!("{at}.{i}"))?;
        } else if s.compact {
            return Err(format!("{at}: field {i} carries a compact marker although codec attributes are off"));
        }
    }
    // derives: exactly the global ones (+ CompactAs under the single-unsigned-field rule)
    let mut want: BTreeSet<String> = spec.global_derives.iter().map(|d| genmod::nospace(d)).collect();
    let compact_as_expected = spec.compact_as.is_some() && fields.len() == 1 && is_uint_field(reg, &fields[0]);
    let mut got: BTreeSet<String> = item.derives.iter().cloned().collect();
    if compact_as_expected {
        let ca = genmod::nospace(spec.compact_as.as_ref().unwrap());
        if is_boxed_field(&fields[0]) {
            // a boxed integer field: the property text does not decide it, accept either way
            got.insert(ca.clone());
        }
        want.insert(ca);
    }
    if got != want {
        return Err(format!("{at}: derives {:?}, expected {:?}", item.derives, want));
    }
    if got.len() != item.derives.len() {
        return Err(format!("{at}: duplicate derives {:?}", item.derives));
    }
    let want_attrs: BTreeSet<String> = spec.global_attrs.iter().map(|a| genmod::nospace(a)).collect();
    let got_attrs: BTreeSet<String> = item.attrs.iter().cloned().collect();
    if got_attrs != want_attrs {
        return Err(format!("{at}: attributes {:?}, expected {:?}", item.attrs, want_attrs));
    }
    Ok(())
}

pub fn composite_oracle(
    reg: &PortableRegistry,
    spec: &SettingsSpec,
    out: &GenOut,
    stats: &mut Stats,
    case_hash: u64,
) -> Result<(), String> {
    let mut ctx = ShapeCtx::new(reg, &out.gm, spec);
    for (path, kept_id) in &out.kept {
        let mut full = vec![out.gm.root.clone()];
        full.extend(path.iter().cloned());
        let Some(item) = out.gm.items.get(&full) else {
            return Err(format!("kept item {path:?} not found in the output"));
        };
        if !item.generics.is_empty() {
            continue;
        }
        let ty = reg.resolve(*kept_id).ok_or("kept id missing")?;
        let at = path.join("::");
        match (&ty.type_def, &item.kind) {
            (TypeDef::Composite(c), GKind::Struct(f)) => {
                check_field_list(reg, spec, out, path.last().unwrap(), &c.fields, f, &mut ctx, &at)?;
                stats.count("field_lists_checked", 1);
                if c.fields.len() >= 2 {
                    stats.nontrivial(mix(&[case_hash, *kept_id as u64, 9999]));
                }
            }
            (TypeDef::Variant(v), GKind::Enum(gvs)) => {
                for var in &v.variants {
                    let Some(gv) = gvs.iter().find(|g| g.name == var.name) else {
                        return Err(format!("{at}: variant {} missing in the emitted enum", var.name));
                    };
                    check_field_list(
                        reg,
                        spec,
                        out,
                        &var.name,
                        &var.fields,
                        &gv.fields,
                        &mut ctx,
                        &format!("{at}::{}", var.name),
                    )?;
                    stats.count("field_lists_checked", 1);
                    let interesting = var.fields.len() >= 2
                        || gv.fields.list().iter().any(|f| f.compact || tokens_nospace(&f.ty).contains("boxed::Box"));
                    if interesting {
                        stats.nontrivial(mix(&[case_hash, *kept_id as u64, var.index as u64]));
                    }
                }
            }
            _ => return Err(format!("{at}: item kind differs from the registry")),
        }
    }
    Ok(())
}

impl Property for C18 {
    fn id(&self) -> &'static str {
        "C18"
    }
    fn rule(&self) -> String {
        "tape -> program -> registry -> settings (global derives/attributes, compact-as path on/off, alloc path, root name, insert_codec_attributes mostly on; off: shape clause (a) not evaluated) -> \
         generate_types_mod; then for EVERY struct and EVERY variant of every emitted item without generic parameters: \
         create_composite_ir_kind + CompositeIR::new + upcast_composite -> tokens, parsed and compared with (a) the registry field list \
         by the C01 shape oracle inside the generated module, (b) the tokens and compact markers of the same variant in the emitted enum, \
         (c) the derive/attribute model (global only, CompactAs iff configured and exactly one unsigned field <= 128 bits). Also the \
         call/event/error style enums of the full Polkadot registry. Non-trivial: field list with >= 2 fields or a compact/boxed field; \
         distinct by hash of (registry, settings, item id, variant index)."
            .into()
    }
    fn assumptions(&self) -> Vec<String> {
        vec!["byte-level equality of the struct encoding and the variant payload follows from shape equality; it is exercised with rustc in the thorough tier of C01/C02".into()]
    }
    fn extra(&self, tier: Tier, seed: u64, stats: &mut Stats) -> Result<(), Failure> {
        // byte-level clause under rustc: the standalone struct decodes the variant's payload (the encoding of
        // an enum value minus the index byte), consumes it and re-encodes to the same bytes
        let (batches, size, encs) = tier.pick((1, 40, 8), (8, 120, 10));
        for b in 0..batches {
            let (cases, counters) = crate::rustc_tier::make_cases_ext(seed, 0xC18 + b as u64, size, false, encs, true);
            for (k, v) in counters {
                if !k.starts_with("label:") {
                    stats.count(&format!("rustc_{k}"), v);
                }
            }
            let n = crate::rustc_tier::run_batch(&format!("C18-{b}"), &cases, true)?;
            stats.count("rustc_cases_compiled", cases.len() as u64);
            stats.count("rustc_payload_round_trips", n);
        }
        Ok(())
    }
    fn strata(&self, tier: Tier) -> Vec<Stratum> {
        vec![
            Stratum::random("programs", tier.pick(20_000, 500_000), tier.pick(384, 768)),
            Stratum::exhaustive("polkadot_full", 4),
        ]
    }
    fn eval(&self, stratum: &str, input: Input, stats: &mut Stats) -> Result<(), Failure> {
        match (stratum, input) {
            ("programs", Input::Tape(bytes)) => {
                let mut t = Tape::new(bytes);
                let mut opts = GenOpts::plain();
                opts.max_params = 1;
                let Some(case) = make_case(&mut t, &opts) else {
                    stats.count("discard_too_large", 1);
                    return Ok(());
                };
                let reg = &case.low.registry;
                let mut spec = gen_settings(&mut t, reg, &SettingsOpts::wire());
                if t.chance(40) {
                    spec.codec = false;
                    stats.label("codec_attributes_off");
                }
                let text = case.gen.prog.to_text();
                let decoded = || -> Value { json!({"program": text, "settings": spec.to_json(), "registry": registry_json(reg)}) };
                let GenResult::Ok(out) = run_typegen(reg, &spec) else {
                    stats.label("generation_not_ok");
                    return Ok(());
                };
                let h = mix(&[hash_str(&registry_json(reg).to_string()), hash_str(&spec.to_json().to_string())]);
                composite_oracle(reg, &spec, &out, stats, h).map_err(|m| {
                    Failure::new(m).sig("c18:composite").with(json!({"case": decoded(), "tokens": out.tokens}))
                })?;
                if spec.compact_as.is_some() {
                    stats.label("compact_as_configured");
                }
                stats.sample("program_case", || json!({"program": text, "settings": spec.to_json()}));
                Ok(())
            }
            ("polkadot_full", Input::Index(i)) => {
                let reg = crate::metadata::polkadot();
                let mut spec = SettingsSpec::default();
                if i % 2 == 1 {
                    spec.compact_as = Some(crate::settings::COMPACT_AS_PATH.into());
                }
                if i >= 2 {
                    spec.global_derives = vec!["Debug".into(), "Clone".into()];
                    spec.alloc = Some("::alloc".into());
                }
                let GenResult::Ok(out) = run_typegen(reg, &spec) else {
                    return Err(Failure::new("polkadot registry does not generate").sig("c18:polkadot"));
                };
                composite_oracle(reg, &spec, &out, stats, 77 + i).map_err(|m| {
                    Failure::new(m).sig("c18:composite").with(json!({"polkadot": "full", "settings": spec.to_json()}))
                })?;
                stats.label("polkadot_full");
                Ok(())
            }
            _ => Err(Failure::infra(format!("unknown stratum {stratum}"))),
        }
    }
}
