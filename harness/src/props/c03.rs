//! C03 No silent conflation: differently shaped types never share an item.

use crate::case::*;
use crate::cf::analyse;
use crate::engine::*;
use crate::gen::GenOpts;
use crate::lower::{lower, permute_registry, registry_json};
use crate::program::*;
use crate::props::c01::{check_all_ids, gen_perm};
use crate::settings::SettingsSpec;
use crate::tape::{hash_str, Tape};
use scale_info::PortableRegistry;
use scale_typegen::utils::ensure_unique_type_paths;
use serde_json::json;
use std::collections::BTreeMap;
use std::sync::OnceLock;

pub struct C03;

/// VERIF_SEED-derived offset of the strided catalogue strata
pub static SEED_OFFSET: std::sync::atomic::AtomicU64 = std::sync::atomic::AtomicU64::new(0);

// ---------------------------------------------------------------------------------------------
// the exhaustive catalogue (DESIGN.md Appendix B)

const W: usize = 0;
const V: usize = 1;

fn p0() -> Ty {
    Ty::Prim(Prim::U8)
}
fn p1() -> Ty {
    Ty::Prim(Prim::U16)
}

/// type terms of depth <= `depth`
fn terms(depth: u32) -> Vec<Ty> {
    terms_with(depth, true)
}

fn terms_with(depth: u32, tuples: bool) -> Vec<Ty> {
    let mut out = vec![p0(), p1(), Ty::Param(0), Ty::Param(1)];
    let mut prev = out.clone();
    for _ in 0..depth {
        let mut next = vec![];
        for t in &prev {
            next.push(Ty::Seq(SeqKind::Vec, Box::new(t.clone())));
            next.push(Ty::Def(W, vec![t.clone()]));
            next.push(Ty::Def(V, vec![t.clone()]));
            if tuples {
                next.push(Ty::Tuple(vec![t.clone(), p0()]));
            }
        }
        out.extend(next.clone());
        prev = next;
    }
    out
}

/// parameter lists: (n params, skipped mask)
const PARAM_SHAPES: [(usize, u8); 7] = [(0, 0), (1, 0), (1, 1), (2, 0), (2, 1), (2, 2), (2, 3)];

#[derive(Clone, Debug)]
pub struct Member {
    pshape: usize,
    fields: Vec<Ty>,
    args: Vec<Ty>,
}

fn admitted(pshape: usize, t: &Ty) -> bool {
    let (n, mask) = PARAM_SHAPES[pshape];
    !t.any(&mut |x| match x {
        Ty::Param(i) => *i >= n || (mask >> i) & 1 == 1,
        _ => false,
    })
}

fn arg_values(small: bool) -> Vec<Ty> {
    if small {
        vec![p0(), Ty::Def(W, vec![p0()])]
    } else {
        vec![p0(), p1(), Ty::Def(W, vec![p0()])]
    }
}

/// all members with `k` fields over the given terms
fn members(k: usize, terms: &[Ty], small_args: bool) -> Vec<Member> {
    let mut out = vec![];
    let mut field_sets: Vec<Vec<Ty>> = vec![vec![]];
    for _ in 0..k {
        let mut next = vec![];
        for fs in &field_sets {
            for t in terms {
                let mut f = fs.clone();
                f.push(t.clone());
                next.push(f);
            }
        }
        field_sets = next;
    }
    for (ps, (n, _)) in PARAM_SHAPES.iter().enumerate() {
        for fs in &field_sets {
            if !fs.iter().all(|t| admitted(ps, t)) {
                continue;
            }
            let av = arg_values(small_args);
            let mut arg_sets: Vec<Vec<Ty>> = vec![vec![]];
            for _ in 0..*n {
                let mut next = vec![];
                for a in &arg_sets {
                    for v in &av {
                        let mut x = a.clone();
                        x.push(v.clone());
                        next.push(x);
                    }
                }
                arg_sets = next;
            }
            for args in arg_sets {
                out.push(Member {
                    pshape: ps,
                    fields: fs.clone(),
                    args,
                });
            }
        }
    }
    out
}

/// classes of the catalogue: (k fields, members)
struct Catalogue {
    classes: Vec<Vec<Member>>,
    /// cumulative number of cases at the start of each class
    offsets: Vec<u64>,
    total: u64,
}

/// kinds x naming x orders
const VARIANTS_PER_PAIR: u64 = 2 * 2 * 2;

fn build_catalogue(level: u32) -> Catalogue {
    let mut classes = vec![];
    if level == 0 {
        classes.push(members(1, &terms_with(1, false), true));
        classes.push(members(2, &terms(0), true));
    } else if level == 1 {
        classes.push(members(1, &terms(1), false));
        classes.push(members(2, &terms(0), false));
    } else {
        classes.push(members(1, &terms(2), false));
        classes.push(members(2, &terms(1), false));
        // three fields over the parameter-T terms of depth <= 1 only (F1-style revisits)
        let t3: Vec<Ty> = terms(1)
            .into_iter()
            .filter(|t| !t.uses_param(1))
            .filter(|t| !matches!(t, Ty::Prim(Prim::U16)))
            .collect();
        classes.push(members(3, &t3, true));
    }
    let mut offsets = vec![];
    let mut total = 0u64;
    for c in &classes {
        offsets.push(total);
        total += (c.len() as u64) * (c.len() as u64) * VARIANTS_PER_PAIR;
    }
    Catalogue {
        classes,
        offsets,
        total,
    }
}

static CAT0: OnceLock<Catalogue> = OnceLock::new();
static CAT1: OnceLock<Catalogue> = OnceLock::new();
static CAT2: OnceLock<Catalogue> = OnceLock::new();

fn catalogue(level: u32) -> &'static Catalogue {
    match level {
        0 => CAT0.get_or_init(|| build_catalogue(0)),
        1 => CAT1.get_or_init(|| build_catalogue(1)),
        _ => CAT2.get_or_init(|| build_catalogue(2)),
    }
}

const L1_QUICK_STRIDE: u64 = 8;
const L2_BUDGET: u64 = 8_000_000;

fn helper_defs() -> Vec<Def> {
    let p = |n: &str| ParamDecl {
        name: n.into(),
        skipped: false,
        config: false,
        compactable: false,
        bitstore: false,
        bitorder: false,
    };
    let f = |n: &str, t: Ty| FieldDef {
        name: Some(n.into()),
        ty: t,
        compact_attr: false,
        docs: vec![],
    };
    vec![
        Def {
            path: vec!["m".into(), "W".into()],
            params: vec![p("T")],
            docs: vec![],
            body: Body::Struct(Fields::Named(vec![f("t", Ty::Param(0))])),
            config_inner: None,
        },
        Def {
            path: vec!["m".into(), "V".into()],
            params: vec![p("T")],
            docs: vec![],
            body: Body::Struct(Fields::Named(vec![f("t", Ty::Param(0)), f("x", Ty::Param(0))])),
            config_inner: None,
        },
    ]
}

fn member_def(m: &Member, is_enum: bool, named: bool) -> Def {
    let (n, mask) = PARAM_SHAPES[m.pshape];
    let params = (0..n)
        .map(|i| ParamDecl {
            name: ["T", "U"][i].into(),
            skipped: (mask >> i) & 1 == 1,
            config: false,
            compactable: false,
            bitstore: false,
            bitorder: false,
        })
        .collect();
    let fs: Vec<FieldDef> = m
        .fields
        .iter()
        .enumerate()
        .map(|(i, t)| FieldDef {
            name: if named {
                Some(["a", "b", "c"][i].to_string())
            } else {
                None
            },
            ty: t.clone(),
            compact_attr: false,
            docs: vec![],
        })
        .collect();
    let fields = if named {
        Fields::Named(fs)
    } else {
        Fields::Unnamed(fs)
    };
    let body = if is_enum {
        Body::Enum(vec![
            VariantDef {
                name: "A".into(),
                index: 0,
                fields,
                docs: vec![],
            },
            VariantDef {
                name: "B".into(),
                index: 1,
                fields: Fields::Unit,
                docs: vec![],
            },
        ])
    } else {
        Body::Struct(fields)
    };
    Def {
        path: vec!["m".into(), "Foo".into()],
        params,
        docs: vec![],
        body,
        config_inner: None,
    }
}

/// decode a catalogue index into a program; None for trivial (identical members)
fn family_program(level: u32, idx: u64) -> Option<(Program, String)> {
    let cat = catalogue(level);
    let ci = match cat.offsets.iter().rposition(|o| *o <= idx) {
        Some(c) => c,
        None => return None,
    };
    let ms = &cat.classes[ci];
    let mut r = idx - cat.offsets[ci];
    let order = r % 2;
    r /= 2;
    let named = r % 2 == 0;
    r /= 2;
    let is_enum = r % 2 == 1;
    r /= 2;
    let n = ms.len() as u64;
    let (ia, ib) = ((r / n) as usize, (r % n) as usize);
    if ia == ib {
        return None;
    }
    let (ma, mb) = (&ms[ia], &ms[ib]);
    let mut defs = helper_defs();
    let da = member_def(ma, is_enum, named);
    let db = member_def(mb, is_enum, named);
    let ia_def = defs.len();
    defs.push(da.clone());
    let ib_def = if db == da {
        ia_def
    } else {
        defs.push(db);
        defs.len() - 1
    };
    let ta = Ty::Def(ia_def, ma.args.clone());
    let tb = Ty::Def(ib_def, mb.args.clone());
    if ta == tb {
        return None;
    }
    let use_idx = defs.len();
    let (f0, f1) = if order == 0 { (ta, tb) } else { (tb, ta) };
    defs.push(Def {
        path: vec!["m".into(), "Use".into()],
        params: vec![],
        docs: vec![],
        body: Body::Struct(Fields::Named(vec![
            FieldDef {
                name: Some("f0".into()),
                ty: f0,
                compact_attr: false,
                docs: vec![],
            },
            FieldDef {
                name: Some("f1".into()),
                ty: f1,
                compact_attr: false,
                docs: vec![],
            },
        ])),
        config_inner: None,
    });
    let prog = Program {
        name_style: 0,
        defs,
        roots: vec![Ty::Def(use_idx, vec![])],
    };
    let text = prog.to_text();
    Some((prog, text))
}

// ---------------------------------------------------------------------------------------------

/// same-path families of a registry: path -> ids
pub fn families(reg: &PortableRegistry) -> BTreeMap<Vec<String>, Vec<u32>> {
    let mut m: BTreeMap<Vec<String>, Vec<u32>> = BTreeMap::new();
    for t in &reg.types {
        if t.ty.path.segments.len() >= 2 {
            m.entry(t.ty.path.segments.clone()).or_default().push(t.id);
        }
    }
    m.retain(|_, v| v.len() >= 2);
    m
}

/// Known finding `dedup:renamed-path-collides` (F5): a family `ns::Foo` that needs renaming while
/// another type already lives at `ns::Foo<digits>`. Such registries are excluded from part (b)
/// of the main search (and counted); the finding probe covers the shape itself.
pub fn collision_prone(reg: &PortableRegistry) -> bool {
    let fams = families(reg);
    if fams.is_empty() {
        return false;
    }
    for t in &reg.types {
        let p = &t.ty.path.segments;
        if p.len() < 2 {
            continue;
        }
        let last = p.last().unwrap();
        let stem = last.trim_end_matches(|c: char| c.is_ascii_digit());
        if stem.len() == last.len() || stem.is_empty() {
            continue;
        }
        let mut q = p.clone();
        *q.last_mut().unwrap() = stem.to_string();
        if fams.contains_key(&q) {
            return true;
        }
        // a family whose own name ends in digits can collide with a longer digit name too
    }
    for fp in fams.keys() {
        let last = fp.last().unwrap();
        for t in &reg.types {
            let p = &t.ty.path.segments;
            if p.len() == fp.len() && p[..p.len() - 1] == fp[..fp.len() - 1] {
                let l2 = p.last().unwrap();
                if l2.len() > last.len()
                    && l2.starts_with(last.as_str())
                    && l2[last.len()..].chars().all(|c| c.is_ascii_digit())
                {
                    return true;
                }
            }
        }
    }
    false
}

/// fixed probe for the known finding F5
pub fn probe_rename_collision() -> Result<(), Failure> {
    let unit = |name: &str, params: Vec<ParamDecl>, f: Fields| Def {
        path: vec!["m".into(), name.into()],
        params,
        docs: vec![],
        body: Body::Struct(f),
        config_inner: None,
    };
    let fld = |t: Ty| FieldDef {
        name: Some("a".into()),
        ty: t,
        compact_attr: false,
        docs: vec![],
    };
    let prog = Program {
        name_style: 0,
        defs: vec![
            unit("Foo", vec![], Fields::Named(vec![fld(Ty::Prim(Prim::U8))])),
            unit("Foo", vec![], Fields::Named(vec![fld(Ty::Prim(Prim::U16))])),
            unit("Foo1", vec![], Fields::Named(vec![fld(Ty::Prim(Prim::Bool))])),
        ],
        roots: vec![Ty::Def(0, vec![]), Ty::Def(1, vec![]), Ty::Def(2, vec![])],
    };
    let low = lower(&prog);
    let text = prog.to_text();
    let mut st = Stats::default();
    let decoded = || json!({"program": text});
    conflation_oracle_inner(&low.registry, &SettingsSpec::default(), &mut st, &decoded, false)
}

/// constructed two-member families for the fixed types_equal findings
fn probe_family(which: &str) -> Result<(), Failure> {
    let fld = |n: &str, t: Ty| FieldDef {
        name: Some(n.into()),
        ty: t,
        compact_attr: false,
        docs: vec![],
    };
    let p = |n: &str| ParamDecl {
        name: n.into(),
        skipped: false,
        config: false,
        compactable: false,
        bitstore: false,
        bitorder: false,
    };
    let foo = |params: Vec<ParamDecl>, fields: Vec<FieldDef>| Def {
        path: vec!["m".into(), "Foo".into()],
        params,
        docs: vec![],
        body: Body::Struct(Fields::Named(fields)),
        config_inner: None,
    };
    let w = |t: Ty| Ty::Def(W, vec![t]);
    let v = |t: Ty| Ty::Def(V, vec![t]);
    let t0 = Ty::Param(0);
    let (da, aa, db, ab): (Def, Vec<Ty>, Def, Vec<Ty>) = match which {
        "types_equal:visited-sets-unpaired" => (
            foo(vec![p("T")], vec![fld("a", w(t0.clone())), fld("b", v(t0.clone())), fld("c", w(t0.clone()))]),
            vec![p0()],
            foo(vec![p("T")], vec![fld("a", w(t0.clone())), fld("b", v(t0.clone())), fld("c", v(t0.clone()))]),
            vec![p1()],
        ),
        "types_equal:nested-argument-difference" => (
            foo(vec![], vec![fld("a", w(p0()))]),
            vec![],
            foo(vec![], vec![fld("a", w(p1()))]),
            vec![],
        ),
        "types_equal:parameter-arity" => (
            foo(vec![p("T")], vec![fld("a", p1())]),
            vec![p0()],
            foo(vec![p("T"), p("U")], vec![fld("a", p1())]),
            vec![p0(), w(p0())],
        ),
        "types_equal:variant-index" => {
            let en = |first_index: u8| Def {
                path: vec!["m".into(), "Foo".into()],
                params: vec![],
                docs: vec![],
                body: Body::Enum(vec![
                    VariantDef {
                        name: "A".into(),
                        index: first_index,
                        fields: Fields::Unnamed(vec![FieldDef { name: None, ty: p0(), compact_attr: false, docs: vec![] }]),
                        docs: vec![],
                    },
                    VariantDef { name: "B".into(), index: 1, fields: Fields::Unit, docs: vec![] },
                ]),
                config_inner: None,
            };
            (en(0), vec![], en(2), vec![])
        }
        "regress:tuple-arity-prefix" => (
            foo(vec![], vec![fld("a", Ty::Tuple(vec![p0(), p0()])), fld("b", Ty::Seq(SeqKind::Vec, Box::new(Ty::Tuple(vec![]))))]),
            vec![],
            foo(vec![], vec![fld("a", Ty::Tuple(vec![p0(), p0(), p0()])), fld("b", Ty::Seq(SeqKind::Vec, Box::new(Ty::Tuple(vec![p1(), p1()]))))]),
            vec![],
        ),
        "regress:shared-wrapper-id" => (
            // Receipt<Balance>{amount: Balance, tips: Vec<p1>} with Balance = p1 and Balance = p0
            foo(vec![p("T")], vec![fld("amount", t0.clone()), fld("tips", Ty::Seq(SeqKind::Vec, Box::new(p1())))]),
            vec![p1()],
            foo(vec![p("T")], vec![fld("amount", t0.clone()), fld("tips", Ty::Seq(SeqKind::Vec, Box::new(p1())))]),
            vec![p0()],
        ),
        _ => (
            // types_equal:same-id-different-generic-view
            foo(vec![p("T")], vec![fld("a", Ty::Tuple(vec![t0.clone(), p0()]))]),
            vec![p1()],
            foo(vec![p("T")], vec![fld("a", Ty::Tuple(vec![p1(), p0()]))]),
            vec![w(p0())],
        ),
    };
    for order in 0..2 {
        let mut defs = helper_defs();
        defs.push(da.clone());
        defs.push(db.clone());
        let (ta, tb) = (Ty::Def(2, aa.clone()), Ty::Def(3, ab.clone()));
        let (f0, f1) = if order == 0 { (ta, tb) } else { (tb, ta) };
        defs.push(Def {
            path: vec!["m".into(), "Use".into()],
            params: vec![],
            docs: vec![],
            body: Body::Struct(Fields::Named(vec![fld("f0", f0), fld("f1", f1)])),
            config_inner: None,
        });
        let prog = Program {
        name_style: 0,
            defs,
            roots: vec![Ty::Def(4, vec![])],
        };
        let low = lower(&prog);
        let text = prog.to_text();
        let mut st = Stats::default();
        let decoded = || json!({"program": text});
        conflation_oracle_inner(&low.registry, &SettingsSpec::default(), &mut st, &decoded, false)
            .map_err(|f| f.sig(which))?;
    }
    Ok(())
}

/// The property-shaped oracle: (a) on the registry as is, (b) after de-duplication.
pub fn conflation_oracle(
    reg: &PortableRegistry,
    spec: &SettingsSpec,
    stats: &mut Stats,
    decoded: &dyn Fn() -> serde_json::Value,
) -> Result<(), Failure> {
    conflation_oracle_inner(reg, spec, stats, decoded, true)
}

fn conflation_oracle_inner(
    reg: &PortableRegistry,
    spec: &SettingsSpec,
    stats: &mut Stats,
    decoded: &dyn Fn() -> serde_json::Value,
    exclude_known: bool,
) -> Result<(), Failure> {
    // (a)
    match run_typegen(reg, spec) {
        GenResult::Ok(out) => {
            stats.label("generation_ok_with_family");
            if let Err((id, msg, kind)) = check_all_ids(reg, spec, &out, None) {
                return Err(Failure::new(format!(
                    "generation succeeded but registry type {id} is resolved to a definition of a different shape: {msg}"
                ))
                .sig(format!("conflation:{kind}"))
                .with(json!({"case": decoded(), "id": id, "tokens": out.tokens})));
            }
        }
        GenResult::Err(ErrKind::DuplicateTypePath(_)) => {
            stats.label("duplicate_type_path_error");
        }
        GenResult::Err(e) => {
            return Err(Failure::new(format!("generation failed with {e:?} (only DuplicateTypePath is acceptable)"))
                .sig("conflation:other-error")
                .with(decoded()));
        }
        GenResult::Panic(p) => {
            return Err(Failure::new(format!("generation panicked: {p}"))
                .sig("conflation:panic")
                .with(decoded()));
        }
        GenResult::Unparsable(e, toks) => {
            return Err(Failure::new(e)
                .sig("output-unparsable")
                .with(json!({"case": decoded(), "tokens": toks})));
        }
    }
    // (b)
    if exclude_known && collision_prone(reg) {
        stats.count("excluded_known_rename_collision_shape", 1);
        return Ok(());
    }
    let mut dedup = reg.clone();
    match guard(|| ensure_unique_type_paths(&mut dedup)) {
        Err(p) => {
            return Err(Failure::new(format!("ensure_unique_type_paths panicked: {p}"))
                .sig("dedup:panic")
                .with(decoded()))
        }
        Ok(Err(e)) => {
            return Err(Failure::new(format!("ensure_unique_type_paths failed: {e}"))
                .sig("dedup:error")
                .with(decoded()))
        }
        Ok(Ok(())) => {}
    }
    match run_typegen(&dedup, spec) {
        GenResult::Ok(out) => {
            if let Err((id, msg, kind)) = check_all_ids(&dedup, spec, &out, None) {
                return Err(Failure::new(format!(
                    "after de-duplication registry type {id} still shares an item with a differently shaped type: {msg}"
                ))
                .sig(format!("conflation-after-dedup:{kind}"))
                .with(json!({"case": decoded(), "id": id, "dedup_registry": registry_json(&dedup), "tokens": out.tokens})));
            }
            if !families(&dedup).is_empty() {
                stats.label("family_kept_together_after_dedup");
            } else {
                stats.label("family_split_by_dedup");
            }
        }
        GenResult::Err(ErrKind::DuplicateTypePath(p)) => {
            return Err(Failure::new(format!(
                "generation still fails with DuplicateTypePath({p}) after ensure_unique_type_paths"
            ))
            // only the registries of the known finding (a family next to an existing `Foo<digits>`) get its
            // signature; anywhere else a duplicate path that survives de-duplication is a new violation
            .sig(if collision_prone(reg) { "dedup:renamed-path-collides" } else { "dedup:insufficient" })
            .with(json!({"case": decoded(), "dedup_registry": registry_json(&dedup)})));
        }
        GenResult::Err(e) => {
            return Err(Failure::new(format!("generation after de-duplication failed with {e:?}"))
                .sig("conflation:other-error")
                .with(decoded()));
        }
        GenResult::Panic(p) => {
            return Err(Failure::new(format!("generation after de-duplication panicked: {p}"))
                .sig("conflation:panic")
                .with(decoded()));
        }
        GenResult::Unparsable(e, toks) => {
            return Err(Failure::new(e)
                .sig("output-unparsable")
                .with(json!({"case": decoded(), "tokens": toks})));
        }
    }
    Ok(())
}

fn family_nontrivial(reg: &PortableRegistry) -> bool {
    // >= 2 distinct ids at one path whose field ids differ somewhere
    for (_, ids) in families(reg) {
        let sig = |id: u32| -> Vec<u32> {
            let t = reg.resolve(id).unwrap();
            match &t.type_def {
                scale_info::TypeDef::Composite(c) => c.fields.iter().map(|f| f.ty.id).collect(),
                scale_info::TypeDef::Variant(v) => v
                    .variants
                    .iter()
                    .flat_map(|v| v.fields.iter().map(|f| f.ty.id))
                    .collect(),
                _ => vec![],
            }
        };
        let first = sig(ids[0]);
        if ids.iter().any(|i| sig(*i) != first) {
            return true;
        }
    }
    false
}

impl Property for C03 {
    fn id(&self) -> &'static str {
        "C03"
    }
    fn rule(&self) -> String {
        "strata: (catalogue) every ordered pair of members at one path from the finite catalogue of DESIGN.md Appendix B \
         (parameter lists [],[T],[T,U] with skipped flags; 1-2 fields (thorough: up to 3) over u8,u16,T,U,Vec<.>,W<.>,V<.>,(.,u8); struct or enum; \
         named or unnamed; arguments over u8,u16,W<u8>), both registry orders, referenced from a Use struct; (random) tape-generated \
         programs with associated-type definitions, two-versions definitions, skipped parameters used in fields, random permutation. \
         Oracle: generation is Ok => every registry id has the shape of the type named for it (C01 oracle); only DuplicateTypePath is an \
         acceptable error; after ensure_unique_type_paths generation succeeds and the same holds. Coincidental (non-CF) families are \
         counted and skipped. Non-trivial: registry with a same-path family whose members differ in at least one field type id; \
         distinct by program text."
            .into()
    }
    fn self_check(&self) -> Result<(), String> {
        crate::realcorpus::self_check(3, 20)
    }
    fn probes(&self) -> Vec<Probe> {
        vec![Probe {
            signature: "dedup:renamed-path-collides",
            what: "ensure_unique_type_paths renames m::Foo to m::Foo1 although another type already lives at m::Foo1; generation still fails with DuplicateTypePath",
            run: Box::new(probe_rename_collision),
        },
        Probe {
            signature: "types_equal:visited-sets-unpaired",
            what: "Foo<T>{a:W<T>,b:V<T>,c:W<T>} vs Foo<T>{a:W<T>,b:V<T>,c:V<T>}",
            run: Box::new(|| probe_family("types_equal:visited-sets-unpaired")),
        },
        Probe {
            signature: "types_equal:nested-argument-difference",
            what: "Foo{a:W<u8>} vs Foo{a:W<u16>}",
            run: Box::new(|| probe_family("types_equal:nested-argument-difference")),
        },
        Probe {
            signature: "types_equal:parameter-arity",
            what: "Foo<T>{a:u16} vs Foo<T,U>{a:u16}",
            run: Box::new(|| probe_family("types_equal:parameter-arity")),
        },
        Probe {
            signature: "types_equal:same-id-different-generic-view",
            what: "Foo<T>{a:(T,u8)} with T=u16 vs Foo<T>{a:(u16,u8)} with T=W<u8>",
            run: Box::new(|| probe_family("types_equal:same-id-different-generic-view")),
        },
        Probe {
            signature: "regress:tuple-arity-prefix",
            what: "Foo{a:(u8,u8), b:Vec<()>} vs Foo{a:(u8,u8,u8), b:Vec<(u16,u16)>} (seeded change C03b)",
            run: Box::new(|| probe_family("regress:tuple-arity-prefix")),
        },
        Probe {
            signature: "regress:shared-wrapper-id",
            what: "Foo<T>{amount:T, tips:Vec<u16>} instantiated with u16 and with u8 (seeded change C03d)",
            run: Box::new(|| probe_family("regress:shared-wrapper-id")),
        },
        Probe {
            signature: "types_equal:variant-index",
            what: "enum Foo{#[codec(index=0)] A(u8), #[codec(index=1)] B} vs enum Foo{#[codec(index=2)] A(u8), #[codec(index=1)] B}",
            run: Box::new(|| probe_family("types_equal:variant-index")),
        }]
    }
    fn init(&self, _tier: Tier, seed: u64) {
        SEED_OFFSET.store(seed, std::sync::atomic::Ordering::Relaxed);
    }
    fn strata(&self, tier: Tier) -> Vec<Stratum> {
        match tier {
            Tier::Quick => vec![
                Stratum::exhaustive("catalogue_l0", catalogue(0).total),
                Stratum::exhaustive("catalogue_l1_strided", catalogue(1).total / L1_QUICK_STRIDE),
                Stratum::random("random_families", 30_000, 384),
            ],
            Tier::Thorough => vec![
                Stratum::exhaustive("catalogue_l0", catalogue(0).total),
                Stratum::exhaustive("catalogue_l1", catalogue(1).total),
                Stratum::exhaustive("catalogue_l2_strided", catalogue(2).total.min(L2_BUDGET)),
                Stratum::random("random_families", 600_000, 768),
            ],
        }
    }
    fn eval(&self, stratum: &str, input: Input, stats: &mut Stats) -> Result<(), Failure> {
        let spec = SettingsSpec::default();
        match (stratum, input) {
            (s, Input::Index(i)) if s.starts_with("catalogue_") => {
                let seed_off = SEED_OFFSET.load(std::sync::atomic::Ordering::Relaxed);
                let (level, idx) = match stratum {
                    "catalogue_l0" => (0, i),
                    "catalogue_l1" => (1, i),
                    "catalogue_l1_strided" => (1, (i * L1_QUICK_STRIDE + seed_off % L1_QUICK_STRIDE) % catalogue(1).total),
                    _ => {
                        // fixed stride over the level-2 space (exhaustive only if it fits)
                        let total = catalogue(2).total;
                        let budget = total.min(L2_BUDGET);
                        let stride = (total / budget).max(1);
                        (2, (i * stride + seed_off % stride) % total)
                    }
                };
                let Some((prog, text)) = family_program(level, idx) else {
                    stats.count("trivial_identical_members", 1);
                    return Ok(());
                };
                let low = lower(&prog);
                let cf = analyse(&prog, &low);
                if !cf.all_cf {
                    stats.count("coincidental_family", 1);
                }
                let reg = &low.registry;
                if family_nontrivial(reg) {
                    stats.nontrivial_distinct_by_construction();
                    stats.sample("catalogue_family", || json!({"program": text}));
                }
                let decoded = || json!({"program": text, "registry": registry_json(reg)});
                conflation_oracle(reg, &spec, stats, &decoded)
            }
            ("random_families", Input::Tape(bytes)) => {
                let mut t = Tape::new(bytes);
                let mut opts = GenOpts::full();
                opts.lookalike = false;
                let Some(case) = make_case(&mut t, &opts) else {
                    stats.count("discard_too_large", 1);
                    return Ok(());
                };
                if !case.cf.all_cf {
                    stats.count("coincidental_family", 1);
                }
                let reg = if t.flag() {
                    let perm = gen_perm(&mut t, case.low.registry.types.len());
                    permute_registry(&case.low.registry, &perm)
                } else {
                    case.low.registry.clone()
                };
                if families(&reg).is_empty() {
                    stats.count("no_family", 1);
                    return Ok(());
                }
                let text = case.gen.prog.to_text();
                if family_nontrivial(&reg) {
                    stats.nontrivial(hash_str(&text));
                    for l in &case.gen.labels {
                        stats.label(l);
                    }
                    stats.sample("random_family", || json!({"program": text}));
                }
                let mut spec = spec.clone();
                spec.root = crate::settings::pick_root(&mut t, &reg);
                let decoded = || json!({"program": text, "registry": registry_json(&reg)});
                conflation_oracle(&reg, &spec, stats, &decoded)
            }
            _ => Err(Failure::infra(format!("unknown stratum {stratum}"))),
        }
    }
}
