//! C07 Type substitution is complete and parameter-correct.

use crate::case::*;
use crate::engine::*;
use crate::gen::GenOpts;
use crate::genmod::*;
use crate::lower::registry_json;
use crate::settings::{pick_root, SettingsSpec};
use crate::shape::is_phantom;
use crate::tape::{hash_str, Tape};
use scale_info::PortableRegistry;
use serde_json::json;
use std::collections::{BTreeMap, BTreeSet};

pub struct C07;

#[derive(Clone, Debug)]
pub struct Rule {
    /// source path segments (registry path)
    pub src: Vec<String>,
    /// declared source idents (None = no generics on the source)
    pub src_idents: Option<Vec<String>>,
    /// target path text (absolute), with generics if any
    pub tgt: String,
}

impl Rule {
    fn src_text(&self) -> String {
        match &self.src_idents {
            Some(i) if !i.is_empty() => format!("{}<{}>", self.src.join("::"), i.join(", ")),
            _ => self.src.join("::"),
        }
    }
    fn pass_through(&self) -> bool {
        self.src_idents.as_ref().map(|i| i.is_empty()).unwrap_or(true) && !self.tgt.contains('<')
    }
}

const IDENTS: [&str; 4] = ["A", "B", "C", "D"];

fn gen_target_arg(t: &mut Tape, idents: &[String], depth: u32, uses_ident_nested: &mut bool) -> String {
    let w_ident = if idents.is_empty() { 0 } else { 5 };
    let w_nest = if depth < 3 { 3 } else { 0 };
    match t.weighted(&[w_ident, 2, w_nest]) {
        0 => {
            if depth >= 1 {
                *uses_ident_nested = true;
            }
            idents[t.choose(idents.len())].clone()
        }
        1 => ["::core::primitive::u8", "::fixed::Ty", "::fixed::m::Other", "Zz"][t.choose(4)].to_string(),
        _ => {
            let n = 1 + t.choose(2);
            let args: Vec<String> = (0..n).map(|_| gen_target_arg(t, idents, depth + 1, uses_ident_nested)).collect();
            format!("::wrap::W{}<{}>", t.choose(3), args.join(", "))
        }
    }
}

/// rules over distinct struct/enum paths of the registry
fn gen_rules(t: &mut Tape, reg: &PortableRegistry, labels: &mut BTreeSet<&'static str>) -> Vec<Rule> {
    let mut seen = BTreeSet::new();
    let cands: Vec<(Vec<String>, usize)> = reg
        .types
        .iter()
        .filter(|ty| ty.ty.path.segments.len() >= 2 && seen.insert(ty.ty.path.segments.clone()))
        .map(|ty| {
            (
                ty.ty.path.segments.clone(),
                ty.ty.type_params.iter().filter(|p| p.ty.is_some()).count(),
            )
        })
        .collect();
    if cands.is_empty() {
        return vec![];
    }
    let n = 1 + t.weighted(&[3, 3, 2, 1]);
    let mut rules: Vec<Rule> = vec![];
    for k in 0..n {
        // prefer generic types
        let generic: Vec<&(Vec<String>, usize)> = cands.iter().filter(|c| c.1 > 0).collect();
        let (path, m) = if !generic.is_empty() && t.chance(180) {
            generic[t.choose(generic.len())].clone()
        } else {
            cands[t.choose(cands.len())].clone()
        };
        if rules.iter().any(|r| r.src == path) {
            continue;
        }
        if t.weighted(&[2, 5]) == 0 {
            labels.insert("pass_through_rule");
            if m > 0 {
                labels.insert("pass_through_rule_on_generic_type");
            }
            rules.push(Rule {
                src: path,
                src_idents: None,
                tgt: format!("::sub::P{k}"),
            });
        } else {
            // declared generics: fewer / as many / more idents than the type has resolved parameters
            let j = match t.weighted(&[1, 5, 1]) {
                0 => m.saturating_sub(1),
                1 => m,
                _ => (m + 1).min(4),
            };
            let idents: Vec<String> = IDENTS[..j].iter().map(|s| s.to_string()).collect();
            let n_args = t.weighted(&[1, 3, 3, 2]);
            let mut nested = false;
            let args: Vec<String> = (0..n_args).map(|_| gen_target_arg(t, &idents, 0, &mut nested)).collect();
            let tgt = if args.is_empty() {
                format!("::sub::S{k}")
            } else {
                format!("::sub::S{k}<{}>", args.join(", "))
            };
            if idents.is_empty() && args.is_empty() {
                labels.insert("pass_through_rule");
            } else {
                labels.insert("declared_generics_rule");
                if nested && m > 0 {
                    labels.insert("declared_rule_with_nested_parameter_use");
                }
                if j != m {
                    labels.insert("declared_rule_with_arity_mismatch");
                }
            }
            rules.push(Rule {
                src: path,
                src_idents: Some(idents),
                tgt,
            });
        }
    }
    rules
}

/// reference substitution: the target path with source idents replaced by resolved arguments
fn apply_rule(rule: &Rule, args: &[syn::Type]) -> syn::Type {
    let tgt: syn::Path = syn::parse_str(&rule.tgt).expect("target parses");
    if rule.pass_through() {
        if args.is_empty() {
            return syn::parse_quote!(#tgt);
        }
        return syn::parse_quote!(#tgt<#(#args),*>);
    }
    let idents = rule.src_idents.clone().unwrap_or_default();
    fn replace(p: &mut syn::Path, idents: &[String], args: &[syn::Type]) {
        for seg in p.segments.iter_mut() {
            if let syn::PathArguments::AngleBracketed(a) = &mut seg.arguments {
                for g in a.args.iter_mut() {
                    if let syn::GenericArgument::Type(syn::Type::Path(tp)) = g {
                        let bare = tp.qself.is_none()
                            && tp.path.leading_colon.is_none()
                            && tp.path.segments.len() == 1
                            && tp.path.segments[0].arguments.is_empty();
                        if bare {
                            let name = tp.path.segments[0].ident.to_string();
                            if let Some(k) = idents.iter().position(|i| *i == name) {
                                if k < args.len() {
                                    *g = syn::GenericArgument::Type(args[k].clone());
                                    continue;
                                }
                            }
                        }
                        replace(&mut tp.path, idents, args);
                    }
                }
            }
        }
    }
    let mut out = tgt;
    replace(&mut out, &idents, args);
    syn::parse_quote!(#out)
}

struct Expect<'a> {
    root: &'a str,
    rules: &'a BTreeMap<Vec<String>, Rule>,
    applied: BTreeSet<Vec<String>>,
}

impl<'a> Expect<'a> {
    /// what a type of the unsubstituted output must look like in the substituted output
    fn ty(&mut self, t: &syn::Type) -> syn::Type {
        use syn::Type as T;
        match t {
            T::Paren(p) => self.ty(&p.elem),
            T::Group(p) => self.ty(&p.elem),
            T::Tuple(tt) => {
                let mut tt = tt.clone();
                for e in tt.elems.iter_mut() {
                    *e = self.ty(e);
                }
                T::Tuple(tt)
            }
            T::Array(a) => {
                let mut a = a.clone();
                *a.elem = self.ty(&a.elem);
                T::Array(a)
            }
            T::Path(tp) => {
                let idents = path_idents(&tp.path);
                let args: Vec<syn::Type> = last_args(&tp.path).unwrap_or_default().iter().map(|a| self.ty(a)).collect();
                if tp.path.leading_colon.is_none() && idents.first().map(|s| s == self.root).unwrap_or(false) {
                    let key = idents[1..].to_vec();
                    if let Some(rule) = self.rules.get(&key) {
                        self.applied.insert(key);
                        return apply_rule(rule, &args);
                    }
                }
                // same path, transformed arguments
                let mut tp = tp.clone();
                if let Some(last) = tp.path.segments.last_mut() {
                    if let syn::PathArguments::AngleBracketed(a) = &mut last.arguments {
                        let mut it = args.into_iter();
                        for g in a.args.iter_mut() {
                            if let syn::GenericArgument::Type(inner) = g {
                                if let Some(n) = it.next() {
                                    *inner = n;
                                }
                            }
                        }
                    }
                }
                T::Path(tp)
            }
            other => other.clone(),
        }
    }
}

fn mentions_substituted(t: &syn::Type, root: &str, rules: &BTreeMap<Vec<String>, Rule>) -> Option<String> {
    let mut found = None;
    fn walk(t: &syn::Type, root: &str, rules: &BTreeMap<Vec<String>, Rule>, found: &mut Option<String>) {
        use syn::Type as T;
        match t {
            T::Paren(p) => walk(&p.elem, root, rules, found),
            T::Group(p) => walk(&p.elem, root, rules, found),
            T::Tuple(tt) => tt.elems.iter().for_each(|e| walk(e, root, rules, found)),
            T::Array(a) => walk(&a.elem, root, rules, found),
            T::Path(tp) => {
                let idents = path_idents(&tp.path);
                if tp.path.leading_colon.is_none() && idents.first().map(|s| s == root).unwrap_or(false) && rules.contains_key(&idents[1..].to_vec()) {
                    *found = Some(idents.join("::"));
                }
                for seg in &tp.path.segments {
                    if let syn::PathArguments::AngleBracketed(a) = &seg.arguments {
                        for g in &a.args {
                            if let syn::GenericArgument::Type(inner) = g {
                                walk(inner, root, rules, found);
                            }
                        }
                    }
                }
            }
            _ => {}
        }
    }
    walk(t, root, rules, &mut found);
    found
}

fn live_fields(f: &GFields) -> Vec<&GField> {
    f.list().iter().filter(|f| !is_phantom(&f.ty)).collect()
}

pub fn substitution_oracle(
    reg: &PortableRegistry,
    base: &SettingsSpec,
    rules: &[Rule],
) -> Result<Option<usize>, (String, String)> {
    let mut with = base.clone();
    for r in rules {
        with.substitutes.push((r.src_text(), r.tgt.clone()));
    }
    let u = match run_typegen(reg, base) {
        GenResult::Ok(o) => o,
        _ => return Ok(None),
    };
    let s = match run_typegen(reg, &with) {
        GenResult::Ok(o) => o,
        GenResult::Err(e) => return Err(("c07:error".into(), format!("generation with substitutes failed: {e:?}"))),
        GenResult::Panic(p) => return Err(("c07:panic".into(), format!("generation with substitutes panicked: {p}"))),
        GenResult::Unparsable(e, _) => return Err(("c07:unparsable".into(), e)),
    };
    let rule_map: BTreeMap<Vec<String>, Rule> = rules.iter().map(|r| (r.src.clone(), r.clone())).collect();
    let root = base.root.clone();
    // (a) no substituted path is defined; everything else is
    for (p, _) in &u.gm.items {
        let key = p[1..].to_vec();
        let defined = s.gm.items.contains_key(p);
        if rule_map.contains_key(&key) {
            if defined {
                return Err(("c07:substituted-type-defined".into(), format!("{} has a substitute but is still defined", p.join("::"))));
            }
        } else if !defined {
            return Err(("c07:item-lost".into(), format!("{} is not substituted but no longer defined", p.join("::"))));
        }
    }
    let mut ex = Expect {
        root: &root,
        rules: &rule_map,
        applied: BTreeSet::new(),
    };
    // (b) lockstep over the items
    for (p, si) in &s.gm.items {
        let ui = u.gm.items.get(p).ok_or(("c07:extra-item".to_string(), format!("{} only exists with substitutes", p.join("::"))))?;
        let pairs: Vec<(Vec<&GField>, Vec<&GField>, String)> = match (&ui.kind, &si.kind) {
            (GKind::Struct(a), GKind::Struct(b)) => vec![(live_fields(a), live_fields(b), p.join("::"))],
            (GKind::Enum(a), GKind::Enum(b)) => {
                let a: Vec<&GVariant> = a.iter().filter(|v| v.name != "__Ignore").collect();
                let b: Vec<&GVariant> = b.iter().filter(|v| v.name != "__Ignore").collect();
                if a.len() != b.len() {
                    return Err(("c07:shape-changed".into(), format!("{}: variant count changed", p.join("::"))));
                }
                a.iter()
                    .zip(b.iter())
                    .map(|(x, y)| (live_fields(&x.fields), live_fields(&y.fields), format!("{}::{}", p.join("::"), x.name)))
                    .collect()
            }
            _ => return Err(("c07:shape-changed".into(), format!("{}: kind changed", p.join("::")))),
        };
        for (uf, sf, at) in pairs {
            if uf.len() != sf.len() {
                return Err(("c07:shape-changed".into(), format!("{at}: field count changed")));
            }
            for (a, b) in uf.iter().zip(sf.iter()) {
                let want = ex.ty(&a.ty);
                let (w, g) = (tokens_nospace(&want), tokens_nospace(&b.ty));
                if w != g {
                    return Err((
                        "c07:wrong-substitution".into(),
                        format!("{at}.{}: with substitutes the type is `{g}`, the rules give `{w}` (without substitutes: `{}`)", a.name.clone().unwrap_or_default(), tokens_nospace(&a.ty)),
                    ));
                }
                if let Some(m) = mentions_substituted(&b.ty, &root, &rule_map) {
                    return Err(("c07:substituted-path-referenced".into(), format!("{at}: still refers to {m}")));
                }
            }
        }
    }
    // resolved type paths
    let (su, ss) = (base.build(), with.build());
    for t in &reg.types {
        let a = resolve_tokens(reg, &su, t.id);
        let b = resolve_tokens(reg, &ss, t.id);
        match (a, b) {
            (Ok(Ok(a)), Ok(Ok(b))) => {
                let (ta, tb): (syn::Type, syn::Type) = match (syn::parse_str(&a), syn::parse_str(&b)) {
                    (Ok(x), Ok(y)) => (x, y),
                    _ => return Err(("c07:unparsable".into(), format!("resolve_type_path({}) does not parse: `{b}`", t.id))),
                };
                let want = tokens_nospace(&ex.ty(&ta));
                if want != tokens_nospace(&tb) {
                    return Err((
                        "c07:wrong-substitution".into(),
                        format!("resolve_type_path({}) is `{b}`, the rules give `{want}` (without substitutes `{a}`)", t.id),
                    ));
                }
                if let Some(m) = mentions_substituted(&tb, &root, &rule_map) {
                    return Err(("c07:substituted-path-referenced".into(), format!("resolve_type_path({}) still refers to {m}", t.id)));
                }
            }
            (Ok(Ok(_)), Ok(Err(e))) => return Err(("c07:error".into(), format!("resolve_type_path({}) fails only with substitutes: {e:?}", t.id))),
            (_, Err(p)) => return Err(("c07:panic".into(), format!("resolve_type_path({}) panicked: {p}", t.id))),
            _ => {}
        }
    }
    Ok(Some(ex.applied.len()))
}

impl Property for C07 {
    fn id(&self) -> &'static str {
        "C07"
    }
    fn rule(&self) -> String {
        "tape -> program (generics with nested instantiations, substituted types used in fields, nested containers, generic arguments, variants, \
         roots) -> registry; tape -> 1-4 substitution rules over distinct struct/enum paths of the registry: pass-through rules, and rules with \
         declared generics (fewer / as many / more source idents than the type has resolved parameters) whose absolute target nests source idents \
         at depth 0-3, repeated, permuted, dropped, mixed with fixed arguments. Oracle: the registry is generated without and with the rules and \
         read in lockstep: no substituted path is defined or referenced, every other item survives, and every field type and every \
         resolve_type_path(id) equals the reference substitution of its unsubstituted form (target path with bare source idents replaced at any \
         depth by the resolved arguments, everything else verbatim; pass-through = target + resolved arguments). Non-trivial: a declared rule \
         applied to a type with >= 1 resolved argument used at nesting depth >= 1, or a pass-through rule on a generic type, actually applied; \
         distinct by hash of (registry, rules)."
            .into()
    }
    fn assumptions(&self) -> Vec<String> {
        vec![
            "source idents nested inside tuples/arrays/references of the target are outside the documented rule grammar and are not generated".into(),
            "the PhantomData marker of an item may differ between the two generations (a substitute with declared generics hides parameter uses); markers are C02's business".into(),
        ]
    }
    fn strata(&self, tier: Tier) -> Vec<Stratum> {
        vec![Stratum::random("programs_and_rules", tier.pick(25_000, 600_000), tier.pick(384, 768))]
    }
    fn eval(&self, _stratum: &str, input: Input, stats: &mut Stats) -> Result<(), Failure> {
        let Input::Tape(bytes) = input else {
            return Err(Failure::infra("C07 expects tapes"));
        };
        let mut t = Tape::new(bytes);
        let opts = GenOpts::plain();
        let Some(case) = make_case(&mut t, &opts) else {
            stats.count("discard_too_large", 1);
            return Ok(());
        };
        let reg = &case.low.registry;
        let mut base = SettingsSpec::default();
        base.root = pick_root(&mut t, reg);
        if t.flag() {
            base.alloc = Some("::alloc".into());
        }
        let mut labels = BTreeSet::new();
        let rules = gen_rules(&mut t, reg, &mut labels);
        if rules.is_empty() {
            return Ok(());
        }
        let text = case.gen.prog.to_text();
        let rules_json: Vec<_> = rules.iter().map(|r| json!({"from": r.src_text(), "to": r.tgt})).collect();
        match substitution_oracle(reg, &base, &rules) {
            Err((sig, msg)) => Err(Failure::new(msg).sig(sig).with(json!({"program": text, "rules": rules_json, "settings": base.to_json(), "registry": registry_json(reg)}))),
            Ok(None) => {
                stats.label("unsubstituted_generation_not_ok");
                Ok(())
            }
            Ok(Some(applied)) => {
                stats.count("rules_applied", applied as u64);
                let interesting = applied > 0
                    && (labels.contains("declared_rule_with_nested_parameter_use") || labels.contains("pass_through_rule_on_generic_type"));
                if interesting {
                    stats.nontrivial(hash_str(&format!("{}{:?}", registry_json(reg), rules_json)));
                    for l in &labels {
                        stats.label(l);
                    }
                    stats.sample("substitution_case", || json!({"program": text, "rules": rules_json}));
                }
                Ok(())
            }
        }
    }
}
