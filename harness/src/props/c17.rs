//! C17 Output depends only on the type graph: renumbering, order, restriction.

use crate::case::*;
use crate::engine::*;
use crate::gen::GenOpts;
use crate::genmod::*;
use crate::lower::{permute_registry, registry_json};
use crate::props::c01::gen_perm;
use crate::props::c03::collision_prone;
use crate::props::c12::{example_weight, reach, value_oracle};
use crate::props::c14::rust_value_oracle;
use crate::settings::{pick_root, SettingsSpec};
use crate::tape::{hash_str, Tape};
use scale_info::PortableRegistry;
use scale_typegen::utils::ensure_unique_type_paths;
use scale_typegen_description::{rust_value_from_seed, scale_value_from_seed, type_description};
use serde_json::{json, Value};
use std::collections::{BTreeMap, BTreeSet};
use std::fmt::Write;

pub struct C17;

/// canonical rendering of one emitted item (everything that is printed for it)
pub fn item_canon(item: &GItem) -> String {
    let mut s = String::new();
    let f = |f: &GFields, s: &mut String| match f {
        GFields::Unit => s.push_str("unit"),
        GFields::Named(fs) | GFields::Unnamed(fs) => {
            s.push_str(if matches!(f, GFields::Named(_)) { "{" } else { "(" });
            for fd in fs {
                let _ = write!(
                    s,
                    "[{:?} pub={} compact={} skip={} docs={:?} attrs={:?} {}]",
                    fd.name,
                    fd.is_pub,
                    fd.compact,
                    fd.skip,
                    fd.docs,
                    fd.other_attrs,
                    tokens_nospace(&fd.ty)
                );
            }
        }
    };
    let _ = write!(
        s,
        "{} <{}> derives={:?} attrs={:?} docs={:?} semi={} ",
        item.path.join("::"),
        item.generics.join(","),
        item.derives,
        item.attrs,
        item.docs,
        item.semi
    );
    match &item.kind {
        GKind::Struct(fs) => f(fs, &mut s),
        GKind::Enum(vs) => {
            for v in vs {
                let _ = write!(s, " |{} idx={:?} docs={:?} attrs={:?} ", v.name, v.index, v.docs, v.other_attrs);
                f(&v.fields, &mut s);
            }
        }
    }
    s
}

fn outcome(reg: &PortableRegistry, spec: &SettingsSpec) -> Result<Result<Box<GenOut>, String>, String> {
    match run_typegen(reg, spec) {
        GenResult::Ok(o) => Ok(Ok(o)),
        GenResult::Err(ErrKind::DuplicateTypePath(_)) => Ok(Err("DuplicateTypePath".into())),
        GenResult::Err(e) => Ok(Err(format!("{e:?}"))),
        GenResult::Panic(p) => Err(format!("panic: {p}")),
        GenResult::Unparsable(e, _) => Err(e),
    }
}

fn fail(sig: &str, msg: String, decoded: &dyn Fn() -> Value) -> Failure {
    Failure::new(msg).sig(sig).with(decoded())
}

/// clause 1 + 2: permutation with consistent renumbering
fn permutation_clauses(
    reg: &PortableRegistry,
    perm: &[u32],
    spec: &SettingsSpec,
    stats: &mut Stats,
    decoded: &dyn Fn() -> Value,
) -> Result<(), Failure> {
    let preg = permute_registry(reg, perm);
    let a = outcome(reg, spec).map_err(|e| fail("c17:panic", e, decoded))?;
    let b = outcome(&preg, spec).map_err(|e| fail("c17:panic", e, decoded))?;
    match (&a, &b) {
        (Ok(x), Ok(y)) => {
            if x.tokens != y.tokens {
                return Err(Failure::new("permuting the registry entries (with consistent renumbering) changes the generated module")
                    .sig("c17:order-dependent-output")
                    .with(json!({"case": decoded(), "original": x.tokens, "permuted": y.tokens, "perm": perm})));
            }
            stats.label("direct_generation_ok_both");
        }
        (Err(x), Err(y)) => {
            if x != y {
                return Err(fail("c17:order-dependent-outcome", format!("original fails with {x}, permuted with {y}"), decoded));
            }
            stats.label("direct_generation_same_error");
        }
        (x, y) => {
            return Err(fail(
                "c17:order-dependent-outcome",
                format!(
                    "generation outcome depends on the registry order: original {}, permuted {}",
                    x.as_ref().map(|_| "Ok").unwrap_or("Err"),
                    y.as_ref().map(|_| "Ok").unwrap_or("Err")
                ),
                decoded,
            ))
        }
    }
    // clause 2: de-duplication groups
    if collision_prone(reg) {
        stats.count("excluded_known_rename_collision_shape", 1);
        return Ok(());
    }
    let (mut da, mut db) = (reg.clone(), preg.clone());
    let ra = guard(|| ensure_unique_type_paths(&mut da));
    let rb = guard(|| ensure_unique_type_paths(&mut db));
    if !matches!((&ra, &rb), (Ok(Ok(())), Ok(Ok(())))) {
        return Err(fail("c17:dedup-error", format!("ensure_unique_type_paths: {ra:?} / {rb:?}"), decoded));
    }
    // names of corresponding entries must be related by a bijection per original path
    let mut fwd: BTreeMap<(Vec<String>, String), String> = BTreeMap::new();
    let mut bwd: BTreeMap<(Vec<String>, String), String> = BTreeMap::new();
    let mut renamed_any = false;
    for (i, t) in reg.types.iter().enumerate() {
        let orig = &t.ty.path.segments;
        if orig.len() < 2 {
            continue;
        }
        let na = da.types[i].ty.path.segments.last().unwrap().clone();
        let nb = db.types[perm[i] as usize].ty.path.segments.last().unwrap().clone();
        if na != *orig.last().unwrap() {
            renamed_any = true;
        }
        if let Some(prev) = fwd.insert((orig.clone(), na.clone()), nb.clone()) {
            if prev != nb {
                return Err(fail(
                    "c17:dedup-groups-differ",
                    format!("entries renamed to {na} at {orig:?} are split into {prev} and {nb} after permutation"),
                    decoded,
                ));
            }
        }
        if let Some(prev) = bwd.insert((orig.clone(), nb.clone()), na.clone()) {
            if prev != na {
                return Err(fail(
                    "c17:dedup-groups-differ",
                    format!("entries renamed to {prev} and {na} at {orig:?} are merged into {nb} after permutation"),
                    decoded,
                ));
            }
        }
    }
    // outputs are token identical modulo the suffix bijection: give the permuted result the names of the original one
    let mut db_renamed = db.clone();
    for (i, _) in reg.types.iter().enumerate() {
        let name = da.types[i].ty.path.segments.last().cloned();
        if let (Some(n), Some(l)) = (name, db_renamed.types[perm[i] as usize].ty.path.segments.last_mut()) {
            *l = n;
        }
    }
    let a2 = outcome(&da, spec).map_err(|e| fail("c17:panic", e, decoded))?;
    let b2 = outcome(&db_renamed, spec).map_err(|e| fail("c17:panic", e, decoded))?;
    match (a2, b2) {
        (Ok(x), Ok(y)) => {
            if x.tokens != y.tokens {
                return Err(Failure::new("after de-duplication the outputs differ by more than the numbering of the suffixes")
                    .sig("c17:order-dependent-output-after-dedup")
                    .with(json!({"case": decoded(), "original": x.tokens, "permuted": y.tokens})));
            }
            if renamed_any {
                stats.label("dedup_renamed_same_groups");
            }
        }
        (x, y) => {
            if x.is_ok() != y.is_ok() {
                return Err(fail("c17:order-dependent-outcome", "outcome after de-duplication depends on the order".into(), decoded));
            }
        }
    }
    Ok(())
}

/// clause 3 + 4: restriction to the types reachable from a root set
fn restriction_clauses(
    reg: &PortableRegistry,
    roots: &BTreeSet<u32>,
    spec: &SettingsSpec,
    check_items: bool,
    stats: &mut Stats,
    decoded: &dyn Fn() -> Value,
) -> Result<bool, Failure> {
    let mut sub = reg.clone();
    let map = sub.retain(|id| roots.contains(&id));
    let dropped = reg.types.len() - sub.types.len();
    if check_items {
        let full = outcome(reg, spec).map_err(|e| fail("c17:panic", e, decoded))?;
        let part = outcome(&sub, spec).map_err(|e| fail("c17:panic", e, decoded))?;
        match (full, part) {
            (Ok(f), Ok(p)) => {
                for (path, item) in &p.gm.items {
                    let Some(fi) = f.gm.items.get(path) else {
                        return Err(fail("c17:restriction-item", format!("{} exists only in the sub-registry's output", path.join("::")), decoded));
                    };
                    let (a, b) = (item_canon(fi), item_canon(item));
                    if a != b {
                        return Err(Failure::new(format!("item {} differs between the full registry and the reachability-closed sub-registry", path.join("::")))
                            .sig("c17:restriction-item")
                            .with(json!({"case": decoded(), "roots": roots, "full": a, "restricted": b})));
                    }
                }
                stats.label("restriction_items_compared");
            }
            (Ok(_), Err(e)) => {
                return Err(fail("c17:restriction-outcome", format!("full registry generates but the sub-registry fails: {e}"), decoded))
            }
            _ => {}
        }
    }
    // descriptions and examples of retained ids
    let settings = spec.build();
    let sub_out = match run_typegen(&sub, spec) {
        GenResult::Ok(o) => Some(o),
        _ => None,
    };
    for (old, new) in &map {
        for fmt in [false, true] {
            let a = guard(|| type_description(*old, reg, fmt).map_err(|e| e.to_string()));
            let b = guard(|| type_description(*new, &sub, fmt).map_err(|e| e.to_string()));
            if a != b {
                return Err(fail(
                    "c17:restriction-description",
                    format!("type_description of id {old} (-> {new}) differs after restriction: {a:?} vs {b:?}"),
                    decoded,
                ));
            }
        }
        if example_weight(reg, *old) > 1_000 {
            continue;
        }
        let rch = reach(&sub, *new);
        for seed in [0u64, 3] {
            let a = guard(|| scale_value_from_seed(*old, reg, seed).is_ok());
            let b = guard(|| scale_value_from_seed(*new, &sub, seed).is_ok());
            if a != b {
                return Err(fail("c17:restriction-example", format!("scale value example for id {old}: {a:?} vs {b:?} after restriction"), decoded));
            }
            if b == Ok(true) && !rch.has_char && !rch.has_256 && !rch.bad_compact {
                value_oracle(&sub, *new, seed, &rch, decoded)?;
            }
            if !rch.has_bits && !rch.has_256 {
                let a = guard(|| rust_value_from_seed(*old, reg, &settings, seed, None, None).is_ok());
                let b = guard(|| rust_value_from_seed(*new, &sub, &settings, seed, None, None).is_ok());
                if a != b {
                    return Err(fail("c17:restriction-example", format!("rust value example for id {old}: {a:?} vs {b:?} after restriction"), decoded));
                }
                if let (Ok(true), Some(o)) = (&b, &sub_out) {
                    if check_items {
                        rust_value_oracle(&sub, &settings, o, *new, seed).map_err(|(sig, m)| fail(&sig, m, decoded))?;
                    }
                }
            }
        }
    }
    stats.count("retained_ids_compared", map.len() as u64);
    Ok(dropped > 0)
}

fn probe_marker_order() -> Result<(), Failure> {
    use crate::program::*;
    let p = |n: &str| ParamDecl {
        name: n.into(),
        skipped: false,
        config: false,
        compactable: false,
        bitstore: false,
        bitorder: false,
    };
    let prog = Program {
        name_style: 0,
        defs: vec![Def {
            path: vec!["krate".into(), "Unused".into()],
            params: vec![p("T"), p("U")],
            docs: vec![],
            body: Body::Enum(vec![]),
            config_inner: None,
        }],
        roots: vec![Ty::Def(0, vec![Ty::Seq(SeqKind::Vec, Box::new(Ty::Prim(Prim::Str))), Ty::Prim(Prim::U8)])],
    };
    let low = crate::lower::lower(&prog);
    let n = low.registry.types.len() as u32;
    let perm: Vec<u32> = (0..n).map(|i| n - 1 - i).collect();
    let text = prog.to_text();
    let decoded = || json!({"program": text, "perm": perm});
    let mut st = Stats::default();
    permutation_clauses(&low.registry, &perm, &SettingsSpec::default(), &mut st, &decoded)
        .map_err(|f| f.sig("marker:order-depends-on-type-ids"))
}

pub const KEEP_FIRST: &str = "c17:keep-first-among-same-shape-versions";

/// Known finding: two same-path definitions of equal wire shape and different source (here: where the Box
/// sits) are merged into the item of whichever entry comes first.
fn probe_keep_first() -> Result<(), Failure> {
    use crate::program::*;
    let un = |t: Ty| FieldDef { name: None, ty: t, compact_attr: false, docs: vec![] };
    let foo = Def { path: vec!["krate".into(), "Foo".into()], params: vec![], docs: vec![], body: Body::Struct(Fields::Unnamed(vec![un(Ty::Prim(Prim::U16))])), config_inner: None };
    let b = || Ty::Ptr(PtrKind::Box, Box::new(Ty::Def(0, vec![])));
    let v = |f: Vec<FieldDef>| Def { path: vec!["krate".into(), "FooX".into()], params: vec![], docs: vec![], body: Body::Struct(Fields::Unnamed(f)), config_inner: None };
    let prog = Program {
        name_style: 0,
        defs: vec![foo, v(vec![un(b()), un(Ty::Def(0, vec![]))]), v(vec![un(Ty::Def(0, vec![])), un(b())])],
        roots: vec![Ty::Def(0, vec![]), Ty::Def(1, vec![]), Ty::Def(2, vec![])],
    };
    if prog.same_shape_versions_with_different_surface().is_empty() {
        return Err(Failure::infra("the probe program is not recognised as ambiguous"));
    }
    let low = crate::lower::lower(&prog);
    let n = low.registry.types.len() as u32;
    let perm: Vec<u32> = (0..n).map(|i| n - 1 - i).collect();
    let text = prog.to_text();
    let decoded = || json!({"program": text, "perm": perm});
    let mut st = Stats::default();
    permutation_clauses(&low.registry, &perm, &SettingsSpec::default(), &mut st, &decoded).map_err(|f| {
        if f.signature == "c17:order-dependent-output" {
            f.sig(KEEP_FIRST)
        } else {
            f
        }
    })
}

/// Regression probe (seeded change C17c): two mutually recursive paths, each in two versions; the outer
/// types differ in a field after the recursive one, the inner types only through the outer ones. Every
/// relative order of the four named entries, and the restrictions to the two outer / two inner types.
fn probe_two_version_recursive_group() -> Result<(), Failure> {
    use crate::program::*;
    let fld = |n: &str, t: Ty| FieldDef { name: Some(n.into()), ty: t, compact_attr: false, docs: vec![] };
    let node = |leaf: usize, tag: Prim| Def {
        path: vec!["tree".into(), "Node".into()],
        params: vec![],
        docs: vec![],
        body: Body::Struct(Fields::Named(vec![
            fld("children", Ty::Seq(SeqKind::Vec, Box::new(Ty::Def(leaf, vec![])))),
            fld("tag", Ty::Prim(tag)),
        ])),
        config_inner: None,
    };
    let leaf = |node: usize| Def {
        path: vec!["tree".into(), "Leaf".into()],
        params: vec![],
        docs: vec![],
        body: Body::Struct(Fields::Named(vec![
            fld("parent", Ty::Opt(Box::new(Ty::Ptr(PtrKind::Box, Box::new(Ty::Def(node, vec![])))))),
            fld("value", Ty::Prim(Prim::U32)),
        ])),
        config_inner: None,
    };
    let defs = vec![node(1, Prim::U8), leaf(0), node(3, Prim::U16), leaf(2)];
    let orders: [[usize; 4]; 6] = [[0, 2, 1, 3], [0, 1, 2, 3], [1, 3, 0, 2], [2, 0, 3, 1], [3, 1, 2, 0], [1, 0, 3, 2]];
    let spec = SettingsSpec::default();
    for order in orders {
        let prog = Program {
            name_style: 0,
            defs: defs.clone(),
            roots: order.iter().map(|d| Ty::Def(*d, vec![])).collect(),
        };
        let low = crate::lower::lower(&prog);
        let reg = &low.registry;
        let n = reg.types.len() as u32;
        let text = prog.to_text();
        let named: Vec<u32> = reg.types.iter().filter(|t| t.ty.path.segments.len() >= 2).map(|t| t.id).collect();
        // every arrangement of the named entries (they go first, the rest keeps its order)
        let mut arr: Vec<Vec<u32>> = vec![vec![]];
        for _ in 0..named.len() {
            arr = arr
                .into_iter()
                .flat_map(|a| named.iter().filter(|x| !a.contains(x)).map(|x| { let mut b = a.clone(); b.push(*x); b }).collect::<Vec<_>>())
                .collect();
        }
        for a in arr {
            // perm[old id] = new id
            let mut new_order: Vec<u32> = a.clone();
            new_order.extend((0..n).filter(|i| !a.contains(i)));
            let mut perm = vec![0u32; n as usize];
            for (new, old) in new_order.iter().enumerate() {
                perm[*old as usize] = new as u32;
            }
            let decoded = || json!({"program": text, "perm": perm});
            let mut st = Stats::default();
            permutation_clauses(reg, &perm, &spec, &mut st, &decoded).map_err(|f| f.sig("regress:two-version-recursive-group"))?;
        }
        for pick in [["Node", "Node"], ["Leaf", "Leaf"]] {
            let roots: BTreeSet<u32> = reg
                .types
                .iter()
                .filter(|t| t.ty.path.segments.last().map(|s| s == pick[0]).unwrap_or(false))
                .map(|t| t.id)
                .collect();
            let decoded = || json!({"program": text, "restriction_roots": roots});
            let mut st = Stats::default();
            restriction_clauses(reg, &roots, &spec, true, &mut st, &decoded).map_err(|f| f.sig("regress:two-version-recursive-group"))?;
        }
    }
    Ok(())
}

impl Property for C17 {
    fn id(&self) -> &'static str {
        "C17"
    }
    fn probes(&self) -> Vec<Probe> {
        vec![
            Probe {
                signature: "marker:order-depends-on-type-ids",
                what: "enum Unused<T, U>{} instantiated with (Vec<String>, u8), registry reversed",
                run: Box::new(probe_marker_order),
            },
            Probe {
                signature: KEEP_FIRST,
                what: "krate::FooX(Box<Foo>, Foo) and krate::FooX(Foo, Box<Foo>): which one is emitted depends on the registry order",
                run: Box::new(probe_keep_first),
            },
            Probe {
                signature: "regress:two-version-recursive-group",
                what: "tree::Node{children: Vec<Leaf>, tag: u8|u16} / tree::Leaf{parent: Option<Box<Node>>, value: u32} in two versions, all arrangements of the four entries",
                run: Box::new(probe_two_version_recursive_group),
            },
        ]
    }
    fn rule(&self) -> String {
        "tape -> coincidence-free program (generics with several instantiations, associated types, two versions, recursion) -> registry + plain \
         settings (global derives only). Metamorphic oracle: (1) 3 random permutations of the entries with consistent renumbering of every id: \
         module tokens identical where generation succeeds, identical error otherwise; ensure_unique_type_paths induces the same shape groups \
         (bijection of new names per original path) and the outputs are identical once the permuted result is given the original's names; \
         (2) 3 random root sets: PortableRegistry::retain sub-registry: every retained path's item is identical to the full registry's, \
         type_description (both modes) string-equal for every retained id, scale/rust value examples agree in Ok/Err and pass the C12/C14 \
         oracles. Polkadot sub-registries: description/example clauses. Non-trivial: non-identity permutation of a registry with a generic \
         instantiated >= 2 times, or a restriction that drops >= 1 type; distinct by hash of (registry, permutation / root set)."
            .into()
    }
    fn assumptions(&self) -> Vec<String> {
        vec![
            "per-path recursive derives legitimately depend on which instantiation is first and are not part of these settings".into(),
            "item identity for Polkadot sub-registries is not claimed here (needs the coincidence certificate of DESIGN.md 3.4)".into(),
        ]
    }
    fn strata(&self, tier: Tier) -> Vec<Stratum> {
        vec![
            Stratum::random("programs", tier.pick(6_000, 150_000), tier.pick(384, 768)),
            // whole groups of definitions in two versions (two versions of a crate in one metadata)
            Stratum::random("group_versions", tier.pick(4_000, 100_000), tier.pick(384, 768)),
            Stratum::random("polkadot_restrictions", tier.pick(60, 1_500), 96),
        ]
    }
    fn eval(&self, stratum: &str, input: Input, stats: &mut Stats) -> Result<(), Failure> {
        let Input::Tape(bytes) = input else {
            return Err(Failure::infra("C17 expects tapes"));
        };
        let mut t = Tape::new(bytes);
        match stratum {
            "programs" | "group_versions" => {
                let mut opts = GenOpts::full();
                opts.lookalike = false;
                opts.bits = true;
                opts.force_group_version = stratum == "group_versions";
                let Some(case) = make_case(&mut t, &opts) else {
                    stats.count("discard_too_large", 1);
                    return Ok(());
                };
                if !case.cf.all_cf {
                    stats.count("discard_non_cf", 1);
                    return Ok(());
                }
                let reg = &case.low.registry;
                let mut spec = SettingsSpec::default();
                spec.root = pick_root(&mut t, reg);
                spec.global_derives = vec!["Debug".into(), "Clone".into()];
                // Same-path definitions that the type graph cannot tell apart but whose source differs (docs, Box
                // placement, an argument without influence): the single item kept for them is necessarily chosen by
                // registry order. Known finding c17:keep-first-among-same-shape-versions; decided on the SOURCE
                // program, independently of the generator.
                let ambiguous = !case.gen.prog.same_shape_versions_with_different_surface().is_empty();
                if ambiguous {
                    stats.label("same_shape_versions_with_different_surface");
                }
                let resign = |f: Failure| -> Failure {
                    if ambiguous
                        && matches!(
                            f.signature.as_str(),
                            "c17:order-dependent-output" | "c17:order-dependent-output-after-dedup" | "c17:restriction-item"
                        )
                    {
                        f.sig(KEEP_FIRST)
                    } else {
                        f
                    }
                };
                for l in ["near_miss_version", "near_miss_group_version", "near_miss_group_of_2_or_more", "recursion", "bit_store_or_order_param", "qualified_type_names", "compact_unit"] {
                    if case.gen.labels.contains(l) {
                        stats.label(l);
                    }
                }
                let text = case.gen.prog.to_text();
                let multi_inst = case.low.insts.len() > case.gen.prog.defs.len()
                    || {
                        let mut seen = BTreeSet::new();
                        case.low.insts.iter().any(|i| !seen.insert(i.def))
                    };
                for _ in 0..3 {
                    let perm = gen_perm(&mut t, reg.types.len());
                    let decoded = || json!({"program": text, "settings": spec.to_json(), "registry": registry_json(reg), "perm": perm});
                    permutation_clauses(reg, &perm, &spec, stats, &decoded).map_err(resign)?;
                    let identity = perm.iter().enumerate().all(|(i, p)| i as u32 == *p);
                    if !identity && multi_inst {
                        stats.nontrivial(hash_str(&format!("{}{:?}", registry_json(reg), perm)));
                        stats.label("permutation_with_multi_instantiated_generic");
                    }
                }
                for _ in 0..3 {
                    let n = 1 + t.choose(4);
                    let roots: BTreeSet<u32> = (0..n).map(|_| t.choose(reg.types.len()) as u32).collect();
                    let decoded = || json!({"program": text, "settings": spec.to_json(), "registry": registry_json(reg), "roots": roots});
                    if restriction_clauses(reg, &roots, &spec, true, stats, &decoded).map_err(resign)? {
                        stats.nontrivial(hash_str(&format!("{}{:?}", registry_json(reg), roots)));
                        stats.label("restriction_dropping_types");
                    }
                }
                stats.sample("program_case", || json!({"program": text}));
                Ok(())
            }
            "polkadot_restrictions" => {
                let reg = crate::metadata::polkadot();
                let n = 1 + t.choose(6);
                let roots: BTreeSet<u32> = (0..n).map(|_| t.choose(reg.types.len()) as u32).collect();
                let spec = SettingsSpec::default();
                let decoded = || json!({"polkadot_roots": roots});
                if restriction_clauses(reg, &roots, &spec, false, stats, &decoded)? {
                    stats.nontrivial(hash_str(&format!("polkadot{roots:?}")));
                    stats.label("polkadot_restriction");
                }
                Ok(())
            }
            _ => Err(Failure::infra(format!("unknown stratum {stratum}"))),
        }
    }
}
