//! C09 Settings switches are honoured everywhere and are orthogonal.

use crate::case::*;
use crate::engine::*;
use crate::gen::GenOpts;
use crate::genmod::*;
use crate::lower::registry_json;
use crate::settings::*;
use crate::tape::{hash_str, Tape};
use scale_info::{PortableRegistry, TypeDef};
use serde_json::json;
use std::collections::BTreeSet;
use std::fmt::Write;

pub struct C09;

const HEAP_NAMES: [&str; 8] = ["Vec", "String", "Box", "BTreeMap", "BTreeSet", "BinaryHeap", "VecDeque", "Cow"];

fn combo(base: &SettingsSpec, bits: u32) -> SettingsSpec {
    let mut s = base.clone();
    s.alloc = if bits & 1 == 1 { Some("::my_alloc::inner".into()) } else { None };
    s.docs = bits & 2 == 0;
    s.codec = bits & 4 == 0;
    s.root = if bits & 8 == 8 { "other_root_mod".into() } else { "types".into() };
    if bits & 16 == 16 {
        s.compact_path = Some("::pb::x::Compact2".into());
        s.bits_path = Some("::pb::Bits2".into());
    } else {
        s.compact_path = Some("::pa::Compact".into());
        s.bits_path = Some("::pa::Bits".into());
    }
    s
}

fn path_string(p: &syn::Path) -> String {
    let mut s = String::new();
    if p.leading_colon.is_some() {
        s.push_str("::");
    }
    s.push_str(&path_idents(p).join("::"));
    s
}

/// render a type with the governed tokens replaced by placeholders
fn norm_type(t: &syn::Type, spec: &SettingsSpec, out: &mut String) {
    use syn::Type as T;
    match t {
        T::Paren(p) => norm_type(&p.elem, spec, out),
        T::Group(p) => norm_type(&p.elem, spec, out),
        T::Tuple(tt) => {
            out.push('(');
            for e in &tt.elems {
                norm_type(e, spec, out);
                out.push(',');
            }
            out.push(')');
        }
        T::Array(a) => {
            out.push('[');
            norm_type(&a.elem, spec, out);
            let _ = write!(out, ";{}]", tokens_nospace(&a.len));
        }
        T::Path(tp) => {
            let ps = path_string(&tp.path);
            let alloc = nospace(spec.alloc.as_deref().unwrap_or("::std"));
            let head = if tp.path.leading_colon.is_none() && tp.path.segments.first().map(|s| s.ident == spec.root).unwrap_or(false) {
                format!("$ROOT{}", &ps[spec.root.len()..])
            } else if Some(&ps) == spec.compact_path.as_ref().map(|s| nospace(s)).as_ref() {
                "$COMPACT".to_string()
            } else if Some(&ps) == spec.bits_path.as_ref().map(|s| nospace(s)).as_ref() {
                "$BITS".to_string()
            } else if ps.starts_with(&format!("{alloc}::")) {
                format!("$ALLOC{}", &ps[alloc.len()..])
            } else {
                ps
            };
            out.push_str(&head);
            let mut any = false;
            for seg in &tp.path.segments {
                if let syn::PathArguments::AngleBracketed(a) = &seg.arguments {
                    for g in &a.args {
                        if !any {
                            out.push('<');
                            any = true;
                        }
                        match g {
                            syn::GenericArgument::Type(inner) => norm_type(inner, spec, out),
                            other => out.push_str(&tokens_nospace(other)),
                        }
                        out.push(',');
                    }
                }
            }
            if any {
                out.push('>');
            }
        }
        other => out.push_str(&tokens_nospace(other)),
    }
}

fn norm_fields(f: &GFields, spec: &SettingsSpec, out: &mut String) {
    match f {
        GFields::Unit => out.push_str("unit"),
        GFields::Named(fs) | GFields::Unnamed(fs) => {
            out.push_str(if matches!(f, GFields::Named(_)) { "{" } else { "(" });
            for fd in fs {
                // a #[codec(skip)] marker keeps its field; only the attribute is governed
                let _ = write!(out, "{}{}:", if fd.is_pub { "pub " } else { "" }, fd.name.clone().unwrap_or_default());
                norm_type(&fd.ty, spec, out);
                let _ = write!(out, "{:?};", fd.other_attrs);
            }
            out.push('}');
        }
    }
}

fn normalise(gm: &GMod, spec: &SettingsSpec) -> String {
    let mut out = String::new();
    for (path, item) in &gm.items {
        let _ = write!(
            out,
            "\n$ROOT::{} <{}> derives{:?} attrs{:?} semi={} ",
            path[1..].join("::"),
            item.generics.join(","),
            item.derives,
            item.attrs,
            item.semi
        );
        match &item.kind {
            GKind::Struct(f) => norm_fields(f, spec, &mut out),
            GKind::Enum(vs) => {
                for v in vs {
                    let _ = write!(out, " |{}{:?}", v.name, v.other_attrs);
                    norm_fields(&v.fields, spec, &mut out);
                }
            }
        }
    }
    // module structure and imports
    for m in &gm.modules {
        let _ = write!(out, "\nmod $ROOT::{}", m[1..].join("::"));
    }
    for (m, u) in &gm.uses {
        let u: Vec<String> = u.iter().map(|n| if *n == spec.root { "$ROOT".to_string() } else { n.clone() }).collect();
        let _ = write!(out, "\nuse in $ROOT::{}: {:?}", m[1..].join("::"), u);
    }
    out
}

fn all_type_paths(t: &syn::Type, out: &mut Vec<syn::Path>) {
    use syn::Type as T;
    match t {
        T::Paren(p) => all_type_paths(&p.elem, out),
        T::Group(p) => all_type_paths(&p.elem, out),
        T::Tuple(tt) => tt.elems.iter().for_each(|e| all_type_paths(e, out)),
        T::Array(a) => all_type_paths(&a.elem, out),
        T::Path(tp) => {
            out.push(tp.path.clone());
            for seg in &tp.path.segments {
                if let syn::PathArguments::AngleBracketed(a) = &seg.arguments {
                    for g in &a.args {
                        if let syn::GenericArgument::Type(inner) = g {
                            all_type_paths(inner, out);
                        }
                    }
                }
            }
        }
        _ => {}
    }
}

fn is_compact_type(reg: &PortableRegistry, mut id: u32) -> bool {
    for _ in 0..32 {
        let Some(t) = reg.resolve(id) else { return false };
        if t.path.segments.len() == 1 && t.path.segments[0] == "Cow" {
            if let Some(p) = t.type_params.first().and_then(|p| p.ty) {
                id = p.id;
                continue;
            }
        }
        return matches!(t.type_def, TypeDef::Compact(_));
    }
    false
}

fn direct_checks(reg: &PortableRegistry, spec: &SettingsSpec, out: &GenOut) -> Result<(usize, usize, usize), String> {
    let gm = &out.gm;
    let custom_alloc = spec.alloc.as_ref().map(|a| nospace(a));
    let mut heap_paths = 0;
    let mut docs_seen = 0;
    let mut compact_seen = 0;
    for (path, item) in &gm.items {
        let at = path.join("::");
        let kept = out.kept.get(&path[1..].to_vec()).ok_or(format!("{at}: no kept id"))?;
        let rty = reg.resolve(*kept).ok_or("kept id missing")?;
        // docs
        if spec.docs {
            if item.docs != rty.docs {
                return Err(format!("{at}: docs {:?}, registry has {:?}", item.docs, rty.docs));
            }
            docs_seen += item.docs.len();
        } else if !item.docs.is_empty() {
            return Err(format!("{at}: doc attribute emitted although docs are off"));
        }
        let mut lists: Vec<(&GFields, &[scale_info::Field<scale_info::form::PortableForm>], String)> = vec![];
        match (&item.kind, &rty.type_def) {
            (GKind::Struct(f), TypeDef::Composite(c)) => lists.push((f, &c.fields, at.clone())),
            (GKind::Enum(vs), TypeDef::Variant(rv)) => {
                for v in vs {
                    if v.name == "__Ignore" {
                        if v.index.is_some() || !v.docs.is_empty() {
                            return Err(format!("{at}::__Ignore carries attributes"));
                        }
                        continue;
                    }
                    let r = rv
                        .variants
                        .iter()
                        .find(|r| r.name == v.name)
                        .ok_or(format!("{at}: variant {} not in registry", v.name))?;
                    if spec.docs {
                        if v.docs != r.docs {
                            return Err(format!("{at}::{}: docs {:?}, registry has {:?}", v.name, v.docs, r.docs));
                        }
                        docs_seen += v.docs.len();
                    } else if !v.docs.is_empty() {
                        return Err(format!("{at}::{}: doc attribute emitted although docs are off", v.name));
                    }
                    if spec.codec {
                        if v.index != Some(r.index as u64) {
                            return Err(format!("{at}::{}: codec index {:?}, registry index {}", v.name, v.index, r.index));
                        }
                    } else if v.index.is_some() {
                        return Err(format!("{at}::{}: codec(index) emitted although codec attributes are off", v.name));
                    }
                    if v.other_attrs.iter().any(|a| a.contains("codec")) {
                        return Err(format!("{at}::{}: unexpected codec attribute {:?}", v.name, v.other_attrs));
                    }
                    lists.push((&v.fields, &r.fields, format!("{at}::{}", v.name)));
                }
            }
            _ => return Err(format!("{at}: kind differs from registry")),
        }
        for (gf, rf, at) in lists {
            let live: Vec<&GField> = gf.list().iter().filter(|f| !crate::shape::is_phantom(&f.ty)).collect();
            if live.len() != rf.len() {
                return Err(format!("{at}: {} fields, registry {}", live.len(), rf.len()));
            }
            for f in gf.list() {
                if !spec.docs && !f.docs.is_empty() {
                    return Err(format!("{at}: field doc emitted although docs are off"));
                }
                if !spec.codec && (f.compact || f.skip) {
                    return Err(format!("{at}: codec attribute on a field although codec attributes are off"));
                }
                if f.other_attrs.iter().any(|a| a.contains("codec")) {
                    return Err(format!("{at}: unexpected codec attribute {:?}", f.other_attrs));
                }
                let mut ps = vec![];
                all_type_paths(&f.ty, &mut ps);
                for p in ps {
                    let s = path_string(&p);
                    let first = p.segments.first().map(|s| s.ident.to_string()).unwrap_or_default();
                    let last = p.segments.last().map(|s| s.ident.to_string()).unwrap_or_default();
                    if let Some(ca) = &custom_alloc {
                        if first == "std" {
                            return Err(format!("{at}: path {s} is rooted at std although a custom alloc path is set"));
                        }
                        if p.leading_colon.is_some() && HEAP_NAMES.contains(&last.as_str()) && !s.starts_with("::core::") {
                            // user supplied paths never end in these names in this check's settings
                            if !s.starts_with(&format!("{ca}::")) {
                                return Err(format!("{at}: heap type path {s} is not rooted at the alloc path {ca}"));
                            }
                        }
                    }
                    if p.leading_colon.is_some() && HEAP_NAMES.contains(&last.as_str()) {
                        heap_paths += 1;
                    }
                }
            }
            for (g, r) in live.iter().zip(rf.iter()) {
                // a field typed by a generic parameter carries no marker: the Compact is in the argument
                if item.generics.iter().any(|p| tokens_nospace(&g.ty) == *p) {
                    continue;
                }
                let rc = is_compact_type(reg, r.ty.id);
                if spec.codec && rc != g.compact {
                    return Err(format!("{at}: registry field compact={rc} but #[codec(compact)] present={}", g.compact));
                }
                if rc {
                    compact_seen += 1;
                }
            }
        }
    }
    Ok((heap_paths, docs_seen, compact_seen))
}

impl Property for C09 {
    fn id(&self) -> &'static str {
        "C09"
    }
    fn rule(&self) -> String {
        "tape -> program using the heap prelude types (String, Vec, VecDeque, Box, BTreeMap, BTreeSet, BinaryHeap, Cow) at top level and nested, \
         docs on types/variants/fields, compact fields in structs and variants -> registry + base settings (derives, attributes, per-path \
         registrations, pass-through substitutes of generic types); then ALL 2^5 combinations of (alloc path, docs, codec attributes, root name, \
         compact+bits paths) are generated (exhaustive per case). Oracle: direct predicates per output (no `std` and alloc-rooted heap paths with a \
         custom alloc path; docs exactly the registry's lines or none; codec index/compact markers exactly the registry's or none) and \
         orthogonality: a normaliser replaces exactly the governed tokens by placeholders and the 32 normal forms must be identical. \
         Non-trivial: registry with >= 3 heap-type paths, >= 1 doc line and >= 1 compact field; distinct by hash of (registry, base settings)."
            .into()
    }
    fn assumptions(&self) -> Vec<String> {
        vec!["user supplied paths in these settings never start with ::std or an alloc root and carry no codec attribute, so every such token in the output is the generator's".into()]
    }
    fn strata(&self, tier: Tier) -> Vec<Stratum> {
        vec![Stratum::random("switch_combinations", tier.pick(3_000, 60_000), tier.pick(384, 768))]
    }
    fn eval(&self, _stratum: &str, input: Input, stats: &mut Stats) -> Result<(), Failure> {
        let Input::Tape(bytes) = input else {
            return Err(Failure::infra("C09 expects tapes"));
        };
        let mut t = Tape::new(bytes);
        let mut opts = GenOpts::plain();
        opts.lookalike = false;
        let Some(case) = make_case(&mut t, &opts) else {
            stats.count("discard_too_large", 1);
            return Ok(());
        };
        let reg = &case.low.registry;
        let mut so = SettingsOpts::wire();
        so.vary_switches = false;
        let mut base = gen_settings(&mut t, reg, &so);
        base.global_attrs.retain(|a| !a.contains("codec"));
        for r in base.specific.iter_mut() {
            r.attrs.retain(|a| !a.contains("codec"));
        }
        // pass-through substitutes of one or two generic types: their arguments carry heap paths
        let generic_paths: Vec<Vec<String>> = {
            let mut seen = BTreeSet::new();
            reg.types
                .iter()
                .filter(|t| t.ty.path.segments.len() >= 2 && !t.ty.type_params.is_empty())
                .filter(|t| seen.insert(t.ty.path.segments.clone()))
                .map(|t| t.ty.path.segments.clone())
                .collect()
        };
        if !generic_paths.is_empty() && t.chance(120) {
            let p = &generic_paths[t.choose(generic_paths.len())];
            base.substitutes.push((p.join("::"), "::user_crate::Substituted".to_string()));
            stats.label("with_substituted_generic");
        }
        let text = case.gen.prog.to_text();
        let mut first_norm: Option<String> = None;
        let mut nontrivial = false;
        for bits in 0..32u32 {
            let spec = combo(&base, bits);
            let decoded = || json!({"program": text, "settings": spec.to_json(), "switches": bits, "registry": registry_json(reg)});
            let out = match run_typegen(reg, &spec) {
                GenResult::Ok(o) => o,
                GenResult::Err(ErrKind::DuplicateTypePath(_)) => return Ok(()),
                GenResult::Err(e) => {
                    return Err(Failure::new(format!("generation failed under switch combination {bits}: {e:?}"))
                        .sig("c09:error")
                        .with(decoded()))
                }
                GenResult::Panic(p) => return Err(Failure::new(format!("panic: {p}")).sig("c09:panic").with(decoded())),
                GenResult::Unparsable(e, _) => return Err(Failure::new(e).sig("c09:unparsable").with(decoded())),
            };
            match direct_checks(reg, &spec, &out) {
                Err(m) => {
                    return Err(Failure::new(format!("switch combination {bits}: {m}"))
                        .sig("c09:switch-not-honoured")
                        .with(json!({"case": decoded(), "tokens": out.tokens})))
                }
                Ok((heap, docs, compact)) => {
                    if bits == 0 && heap >= 3 && docs >= 1 && compact >= 1 {
                        nontrivial = true;
                    }
                }
            }
            let n = normalise(&out.gm, &spec);
            match &first_norm {
                None => first_norm = Some(n),
                Some(f) => {
                    if *f != n {
                        // find the first differing line for the message
                        let (a, b): (Vec<&str>, Vec<&str>) = (f.lines().collect(), n.lines().collect());
                        let k = (0..a.len().max(b.len())).find(|i| a.get(*i) != b.get(*i)).unwrap_or(0);
                        return Err(Failure::new(format!(
                            "switch combination {bits} changes tokens it does not govern: `{}` vs `{}`",
                            a.get(k).unwrap_or(&""),
                            b.get(k).unwrap_or(&"")
                        ))
                        .sig("c09:not-orthogonal")
                        .with(json!({"case": decoded(), "tokens": out.tokens})));
                    }
                }
            }
        }
        stats.count("generations", 32);
        if nontrivial {
            stats.nontrivial(hash_str(&format!("{}{}", registry_json(reg), base.to_json())));
            for l in &case.gen.labels {
                stats.label(l);
            }
            stats.sample("switch_case", || json!({"program": text, "base_settings": base.to_json()}));
        }
        Ok(())
    }
}
