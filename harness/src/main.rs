use std::path::PathBuf;
use vlib::engine::{install_panic_hook, run_property, run_replay, Tier};

fn usage() -> ! {
    eprintln!("usage: vcheck <Cxx> <quick|thorough> | vcheck <Cxx> --replay <file>");
    std::process::exit(2)
}

fn main() {
    // anyhow captures a backtrace per error under a global lock when these are set
    std::env::set_var("RUST_BACKTRACE", "0");
    std::env::set_var("RUST_LIB_BACKTRACE", "0");
    install_panic_hook();
    let args: Vec<String> = std::env::args().skip(1).collect();
    if args.len() < 2 {
        usage();
    }
    if let Some(code) = vlib::props::subcommand(&args) {
        std::process::exit(code);
    }
    let Some(prop) = vlib::props::by_id(&args[0]) else {
        eprintln!("unknown property {}", args[0]);
        std::process::exit(2)
    };
    let seed: u64 = std::env::var("VERIF_SEED")
        .ok()
        .and_then(|s| s.trim().parse::<i128>().ok())
        .map(|v| v as u64)
        .unwrap_or(0);
    let code = match args[1].as_str() {
        "quick" => run_property(prop.as_ref(), Tier::Quick, seed),
        "thorough" => run_property(prop.as_ref(), Tier::Thorough, seed),
        "--replay" => {
            if args.len() < 3 {
                usage()
            }
            run_replay(prop.as_ref(), &PathBuf::from(&args[2]))
        }
        _ => usage(),
    };
    std::process::exit(code)
}
