//! A "rustc front-end" for exactly the subset of Rust the generator emits (DESIGN.md C02):
//! name resolution of paths rooted at the types module, generic arity, parameter usage (E0392),
//! unique names (E0428), distinct codec indices, and direct-containment cycles (E0072).

use crate::genmod::*;
use crate::settings::SettingsSpec;
use std::collections::{BTreeMap, BTreeSet};

pub struct StaticCtx<'a> {
    pub gm: &'a GMod,
    pub alloc: String,
    pub compact: Option<String>,
    pub bits: Option<String>,
    pub opaque: Vec<String>,
    pub paths_checked: u64,
}

fn path_string(p: &syn::Path) -> String {
    let mut s = String::new();
    if p.leading_colon.is_some() {
        s.push_str("::");
    }
    s.push_str(&path_idents(p).join("::"));
    s
}

fn strip_generics(s: &str) -> String {
    match s.find('<') {
        Some(i) => s[..i].to_string(),
        None => s.to_string(),
    }
}

/// arity of the std / core paths the generator may emit (written from the std docs)
fn std_arity(ps: &str, alloc: &str) -> Option<usize> {
    if let Some(rest) = ps.strip_prefix("::core::primitive::") {
        return [
            "bool", "char", "u8", "u16", "u32", "u64", "u128", "i8", "i16", "i32", "i64", "i128",
        ]
        .contains(&rest)
        .then_some(0);
    }
    if let Some(rest) = ps.strip_prefix("::core::num::NonZero") {
        return [
            "U8", "U16", "U32", "U64", "U128", "Usize", "I8", "I16", "I32", "I64", "I128", "Isize",
        ]
        .contains(&rest)
        .then_some(0);
    }
    match ps {
        "::core::option::Option" => return Some(1),
        "::core::result::Result" => return Some(2),
        "::core::ops::Range" | "::core::ops::RangeInclusive" => return Some(1),
        "::core::time::Duration" => return Some(0),
        "::core::marker::PhantomData" => return Some(1),
        _ => {}
    }
    let rest = ps.strip_prefix(alloc)?;
    match rest {
        "::string::String" => Some(0),
        "::vec::Vec" | "::boxed::Box" => Some(1),
        "::collections::BTreeMap" => Some(2),
        "::collections::BTreeSet"
        | "::collections::BinaryHeap"
        | "::collections::VecDeque"
        | "::collections::LinkedList" => Some(1),
        _ => None,
    }
}

impl<'a> StaticCtx<'a> {
    pub fn new(gm: &'a GMod, spec: &SettingsSpec) -> Self {
        StaticCtx {
            gm,
            alloc: nospace(spec.alloc.as_deref().unwrap_or("::std")),
            compact: spec.compact_path.as_ref().map(|s| nospace(s)),
            bits: spec.bits_path.as_ref().map(|s| nospace(s)),
            opaque: spec
                .substitutes
                .iter()
                .map(|(_, t)| strip_generics(&nospace(t)))
                .collect(),
            paths_checked: 0,
        }
    }

    /// is the root module's name resolvable inside `module`?
    fn root_in_scope(&self, module: &[String]) -> bool {
        if module.is_empty() {
            // outside of the generated module, next to it
            return true;
        }
        let has_use = self
            .gm
            .uses
            .get(module)
            .map(|u| u.iter().any(|n| *n == self.gm.root))
            .unwrap_or(false);
        if module.len() <= 1 {
            return has_use;
        }
        // a sub-module of `module` named like the root would shadow the import: excluded by the
        // domain (root name is not a path segment of the registry)
        has_use && self.root_in_scope(&module[..module.len() - 1])
    }

    /// check one type written inside `module` in an item with generic parameters `generics`;
    /// records the parameters used.
    pub fn check_type(
        &mut self,
        t: &syn::Type,
        module: &[String],
        generics: &[String],
        used: &mut BTreeSet<String>,
    ) -> Result<(), String> {
        use syn::Type as T;
        match t {
            T::Paren(p) => self.check_type(&p.elem, module, generics, used),
            T::Group(p) => self.check_type(&p.elem, module, generics, used),
            T::Tuple(tt) => {
                for e in &tt.elems {
                    self.check_type(e, module, generics, used)?;
                }
                Ok(())
            }
            T::Array(a) => {
                match &a.len {
                    syn::Expr::Lit(syn::ExprLit {
                        lit: syn::Lit::Int(_),
                        ..
                    }) => {}
                    other => return Err(format!("array length is not a literal: {}", tokens_nospace(other))),
                }
                self.check_type(&a.elem, module, generics, used)
            }
            T::Path(tp) => {
                if tp.qself.is_some() {
                    return Err(format!("qualified path {}", tokens_nospace(tp)));
                }
                self.paths_checked += 1;
                let ps = path_string(&tp.path);
                let args = last_args(&tp.path)?;
                let idents = path_idents(&tp.path);
                for a in &args {
                    self.check_type(a, module, generics, used)?;
                }
                if tp.path.leading_colon.is_none() {
                    if idents.len() == 1 {
                        // must be a declared generic parameter
                        if !generics.contains(&idents[0]) {
                            return Err(format!(
                                "`{}` is neither a declared generic parameter nor a resolvable name (E0412)",
                                idents[0]
                            ));
                        }
                        if !args.is_empty() {
                            return Err(format!("generic parameter `{}` applied to arguments", idents[0]));
                        }
                        used.insert(idents[0].clone());
                        return Ok(());
                    }
                    if idents[0] == self.gm.root {
                        if !self.root_in_scope(module) {
                            return Err(format!(
                                "path {ps} used in module {} where `{}` is not in scope (missing `use super::{}` chain)",
                                module.join("::"),
                                self.gm.root,
                                self.gm.root
                            ));
                        }
                        let item = self
                            .gm
                            .items
                            .get(&idents)
                            .ok_or_else(|| format!("path {ps} does not resolve to an emitted item (E0412)"))?;
                        if item.generics.len() != args.len() {
                            return Err(format!(
                                "{ps} is applied to {} generic arguments but declares {} (E0107)",
                                args.len(),
                                item.generics.len()
                            ));
                        }
                        return Ok(());
                    }
                    if idents[0] == "crate" {
                        return Ok(()); // user supplied absolute path
                    }
                    return Err(format!("relative path {ps} cannot be resolved"));
                }
                // absolute paths
                if let Some(n) = std_arity(&ps, &self.alloc) {
                    if n != args.len() {
                        return Err(format!("{ps} applied to {} arguments, expects {n} (E0107)", args.len()));
                    }
                    return Ok(());
                }
                if self.compact.as_deref() == Some(ps.as_str()) {
                    if args.len() != 1 {
                        return Err(format!("compact path {ps} applied to {} arguments", args.len()));
                    }
                    return Ok(());
                }
                if self.bits.as_deref() == Some(ps.as_str()) {
                    if args.len() != 2 {
                        return Err(format!("bits path {ps} applied to {} arguments", args.len()));
                    }
                    return Ok(());
                }
                if self.opaque.iter().any(|o| *o == ps) {
                    return Ok(());
                }
                Err(format!("unknown external path {ps}"))
            }
            other => Err(format!("unexpected type syntax {}", tokens_nospace(other))),
        }
    }

    /// whole-module checks
    pub fn check_module(&mut self) -> Result<(), String> {
        if let Some(p) = self.gm.problems.first() {
            return Err(p.clone());
        }
        let items: Vec<GItem> = self.gm.items.values().cloned().collect();
        for item in &items {
            let module = &item.path[..item.path.len() - 1];
            let at = item.path.join("::");
            // generics are unique
            let gset: BTreeSet<&String> = item.generics.iter().collect();
            if gset.len() != item.generics.len() {
                return Err(format!("{at}: duplicate generic parameter"));
            }
            let mut used = BTreeSet::new();
            let mut all_fields: Vec<&GField> = vec![];
            match &item.kind {
                GKind::Struct(f) => {
                    all_fields.extend(f.list());
                    let mut names = BTreeSet::new();
                    for fd in f.list() {
                        if let Some(n) = &fd.name {
                            if !names.insert(n.clone()) {
                                return Err(format!("{at}: duplicate field {n}"));
                            }
                        }
                        if !fd.is_pub {
                            return Err(format!("{at}: field is not pub"));
                        }
                    }
                    if matches!(f, GFields::Unit | GFields::Unnamed(_)) && !item.semi {
                        return Err(format!("{at}: unit/tuple struct without `;`"));
                    }
                }
                GKind::Enum(vs) => {
                    let mut idx = BTreeSet::new();
                    for v in vs {
                        if let Some(i) = v.index {
                            if i > 255 {
                                return Err(format!("{at}::{}: codec index {i} out of range", v.name));
                            }
                            if !idx.insert(i) {
                                return Err(format!("{at}::{}: duplicate codec index {i}", v.name));
                            }
                        }
                        let mut names = BTreeSet::new();
                        for fd in v.fields.list() {
                            if let Some(n) = &fd.name {
                                if !names.insert(n.clone()) {
                                    return Err(format!("{at}::{}: duplicate field {n}", v.name));
                                }
                            }
                        }
                        all_fields.extend(v.fields.list());
                    }
                }
            }
            for fd in all_fields {
                self.check_type(&fd.ty, module, &item.generics, &mut used)
                    .map_err(|e| format!("{at}: {e}"))?;
                // `#[codec(compact)] f: Box<X>` needs `Compact<Box<X>>: Encode + Decode`, which does not exist
                if fd.compact {
                    if let syn::Type::Path(tp) = &fd.ty {
                        if path_string(&tp.path) == format!("{}::boxed::Box", self.alloc) {
                            return Err(format!("{at}: #[codec(compact)] on a boxed field (Compact<Box<_>> is not a codec type)"));
                        }
                    }
                }
            }
            for g in &item.generics {
                if !used.contains(g) {
                    return Err(format!("{at}: generic parameter {g} is never used (E0392)"));
                }
            }
        }
        self.check_constrained()?;
        self.check_cycles()
    }

    /// rustc rejects a type parameter that is only used recursively (through arguments of the
    /// generated items themselves): "type parameter `T` is only used recursively". Least fixpoint
    /// of "parameter j of item Y is constrained by some field".
    fn check_constrained(&self) -> Result<(), String> {
        use std::collections::BTreeSet as Set;
        let mut constrained: Set<(Vec<String>, usize)> = Set::new();
        // does `t` constrain the parameter `g`, given the currently known constrained positions?
        fn constrains(t: &syn::Type, g: &str, root: &str, gm: &GMod, known: &Set<(Vec<String>, usize)>) -> bool {
            use syn::Type as T;
            match t {
                T::Paren(p) => constrains(&p.elem, g, root, gm, known),
                T::Group(p) => constrains(&p.elem, g, root, gm, known),
                T::Tuple(tt) => tt.elems.iter().any(|e| constrains(e, g, root, gm, known)),
                T::Array(a) => constrains(&a.elem, g, root, gm, known),
                T::Path(tp) => {
                    let idents = path_idents(&tp.path);
                    let args = last_args(&tp.path).unwrap_or_default();
                    if tp.path.leading_colon.is_none() && idents.len() == 1 && args.is_empty() {
                        return idents[0] == g;
                    }
                    let is_item = tp.path.leading_colon.is_none()
                        && idents.first().map(|s| s == root).unwrap_or(false)
                        && gm.items.contains_key(&idents);
                    args.iter().enumerate().any(|(j, a)| {
                        if is_item && !known.contains(&(idents.clone(), j)) {
                            false
                        } else {
                            constrains(a, g, root, gm, known)
                        }
                    })
                }
                _ => false,
            }
        }
        loop {
            let mut changed = false;
            for (path, item) in &self.gm.items {
                for (j, g) in item.generics.iter().enumerate() {
                    if constrained.contains(&(path.clone(), j)) {
                        continue;
                    }
                    let mut fields: Vec<&GField> = vec![];
                    match &item.kind {
                        GKind::Struct(f) => fields.extend(f.list()),
                        GKind::Enum(vs) => vs.iter().for_each(|v| fields.extend(v.fields.list())),
                    }
                    if fields.iter().any(|f| constrains(&f.ty, g, &self.gm.root, self.gm, &constrained)) {
                        constrained.insert((path.clone(), j));
                        changed = true;
                    }
                }
            }
            if !changed {
                break;
            }
        }
        for (path, item) in &self.gm.items {
            for (j, g) in item.generics.iter().enumerate() {
                if !constrained.contains(&(path.clone(), j)) {
                    return Err(format!(
                        "{}: generic parameter {g} is only used recursively (rustc: \"type parameter is only used recursively\")",
                        path.join("::")
                    ));
                }
            }
        }
        Ok(())
    }

    // -----------------------------------------------------------------------------------------
    // E0072: direct containment must be acyclic

    fn direct_children(&self, t: &syn::Type) -> Vec<syn::Type> {
        use syn::Type as T;
        match t {
            T::Paren(p) => self.direct_children(&p.elem),
            T::Group(p) => self.direct_children(&p.elem),
            T::Tuple(tt) => tt.elems.iter().cloned().collect(),
            T::Array(a) => vec![(*a.elem).clone()],
            T::Path(tp) => {
                let ps = path_string(&tp.path);
                let args = last_args(&tp.path).unwrap_or_default();
                let idents = path_idents(&tp.path);
                if tp.path.leading_colon.is_none() && idents.first() == Some(&self.gm.root) {
                    if let Some(item) = self.gm.items.get(&idents) {
                        if item.generics.len() != args.len() {
                            return vec![];
                        }
                        let env: BTreeMap<String, syn::Type> =
                            item.generics.iter().cloned().zip(args.iter().cloned()).collect();
                        let mut out = vec![];
                        let mut push = |f: &GFields| {
                            for fd in f.list() {
                                out.push(subst_type(&fd.ty, &env));
                            }
                        };
                        match &item.kind {
                            GKind::Struct(f) => push(f),
                            GKind::Enum(vs) => vs.iter().for_each(|v| push(&v.fields)),
                        }
                        return out;
                    }
                    return vec![];
                }
                match ps.as_str() {
                    "::core::option::Option"
                    | "::core::result::Result"
                    | "::core::ops::Range"
                    | "::core::ops::RangeInclusive" => args,
                    _ => {
                        if self.compact.as_deref() == Some(ps.as_str()) {
                            return args;
                        }
                        // Box, Vec, collections, PhantomData, String, primitives, bits, substitutes:
                        // heap indirection or no containment
                        vec![]
                    }
                }
            }
            _ => vec![],
        }
    }

    fn dfs(
        &self,
        t: &syn::Type,
        stack: &mut Vec<String>,
        finite: &mut BTreeSet<String>,
        budget: &mut u64,
    ) -> Result<(), String> {
        let key = tokens_nospace(t);
        if finite.contains(&key) {
            return Ok(());
        }
        if stack.contains(&key) {
            return Err(format!(
                "recursive type without indirection (E0072): {} -> {}",
                stack.join(" -> "),
                key
            ));
        }
        if *budget == 0 || stack.len() > 200 {
            return Err(format!("containment expansion does not terminate near {key}"));
        }
        *budget -= 1;
        stack.push(key.clone());
        for c in self.direct_children(t) {
            self.dfs(&c, stack, finite, budget)?;
        }
        stack.pop();
        finite.insert(key);
        Ok(())
    }

    pub fn check_cycles(&self) -> Result<(), String> {
        let mut finite = BTreeSet::new();
        for item in self.gm.items.values() {
            // the item applied to its own (opaque) parameters
            let path = item.path.join("::");
            let ty_src = if item.generics.is_empty() {
                path
            } else {
                format!("{}<{}>", path, item.generics.join(","))
            };
            let ty: syn::Type = syn::parse_str(&ty_src).map_err(|e| format!("{ty_src}: {e}"))?;
            let mut stack = vec![];
            let mut budget = 20_000;
            self.dfs(&ty, &mut stack, &mut finite, &mut budget)?;
        }
        Ok(())
    }

    /// a closed type named by resolve_type_path, used next to the generated module
    pub fn check_closed_type(&mut self, t: &syn::Type) -> Result<(), String> {
        let mut used = BTreeSet::new();
        self.check_type(t, &[], &[], &mut used)?;
        let mut finite = BTreeSet::new();
        let mut stack = vec![];
        let mut budget = 20_000;
        self.dfs(t, &mut stack, &mut finite, &mut budget)
    }
}
