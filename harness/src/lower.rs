//! Lowering: a model of what `#[derive(TypeInfo)]` + `Registry::register_type` produce for a
//! program (DESIGN.md 3.2). Validated against real scale-info by `realcorpus::self_check`.

use crate::program::*;
use scale_info::{
    form::PortableForm, interner::UntrackedSymbol, Field, Path, PortableRegistry, PortableType,
    Type, TypeDef, TypeDefArray, TypeDefBitSequence, TypeDefCompact, TypeDefComposite,
    TypeDefPrimitive, TypeDefSequence, TypeDefTuple, TypeDefVariant, TypeParameter, Variant,
};
use std::any::TypeId;
use std::collections::BTreeMap;

pub type Sym = UntrackedSymbol<TypeId>;

pub fn sym(id: u32) -> Sym {
    UntrackedSymbol::from(id)
}

pub fn prim_def(p: Prim) -> TypeDefPrimitive {
    match p {
        Prim::Bool => TypeDefPrimitive::Bool,
        Prim::Char => TypeDefPrimitive::Char,
        Prim::Str => TypeDefPrimitive::Str,
        Prim::U8 => TypeDefPrimitive::U8,
        Prim::U16 => TypeDefPrimitive::U16,
        Prim::U32 => TypeDefPrimitive::U32,
        Prim::U64 => TypeDefPrimitive::U64,
        Prim::U128 => TypeDefPrimitive::U128,
        Prim::U256 => TypeDefPrimitive::U256,
        Prim::I8 => TypeDefPrimitive::I8,
        Prim::I16 => TypeDefPrimitive::I16,
        Prim::I32 => TypeDefPrimitive::I32,
        Prim::I64 => TypeDefPrimitive::I64,
        Prim::I128 => TypeDefPrimitive::I128,
        Prim::I256 => TypeDefPrimitive::I256,
    }
}

pub fn def_prim(p: &TypeDefPrimitive) -> Prim {
    match p {
        TypeDefPrimitive::Bool => Prim::Bool,
        TypeDefPrimitive::Char => Prim::Char,
        TypeDefPrimitive::Str => Prim::Str,
        TypeDefPrimitive::U8 => Prim::U8,
        TypeDefPrimitive::U16 => Prim::U16,
        TypeDefPrimitive::U32 => Prim::U32,
        TypeDefPrimitive::U64 => Prim::U64,
        TypeDefPrimitive::U128 => Prim::U128,
        TypeDefPrimitive::U256 => Prim::U256,
        TypeDefPrimitive::I8 => Prim::I8,
        TypeDefPrimitive::I16 => Prim::I16,
        TypeDefPrimitive::I32 => Prim::I32,
        TypeDefPrimitive::I64 => Prim::I64,
        TypeDefPrimitive::I128 => Prim::I128,
        TypeDefPrimitive::I256 => Prim::I256,
    }
}

/// One interned instantiation of a definition
#[derive(Clone, Debug)]
pub struct Inst {
    pub id: u32,
    pub def: usize,
    /// closed, normalized arguments (one per declared parameter, skipped ones included)
    pub args: Vec<Ty>,
}

#[derive(Clone, Debug)]
pub struct Lowered {
    pub registry: PortableRegistry,
    /// id -> normalized closed type
    pub ty_of: Vec<Ty>,
    pub id_of: BTreeMap<Ty, u32>,
    pub insts: Vec<Inst>,
    pub root_ids: Vec<u32>,
}

struct Lowerer<'a> {
    prog: &'a Program,
    types: Vec<Option<Type<PortableForm>>>,
    ty_of: Vec<Ty>,
    id_of: BTreeMap<Ty, u32>,
    insts: Vec<Inst>,
}

fn mk_path(segs: &[&str]) -> Path<PortableForm> {
    Path::from_segments_unchecked(segs.iter().map(|s| s.to_string()))
}

fn mk_field(name: Option<&str>, ty: u32, type_name: Option<String>, docs: Vec<String>) -> Field<PortableForm> {
    Field {
        name: name.map(|s| s.to_string()),
        ty: sym(ty),
        type_name,
        docs,
    }
}

fn mk_type(
    path: Path<PortableForm>,
    params: Vec<TypeParameter<PortableForm>>,
    def: TypeDef<PortableForm>,
    docs: Vec<String>,
) -> Type<PortableForm> {
    Type {
        path,
        type_params: params,
        type_def: def,
        docs,
    }
}

pub fn assoc_resolver(prog: &Program) -> impl Fn(&Ty) -> Ty + '_ {
    move |arg: &Ty| match arg {
        Ty::Def(c, _) => prog.defs[*c]
            .config_inner
            .clone()
            .expect("Assoc parameter must be instantiated with a config definition"),
        other => panic!("Assoc over non-config argument {other:?}"),
    }
}

impl<'a> Lowerer<'a> {
    fn intern(&mut self, t: &Ty) -> u32 {
        let t = t.normalize();
        if let Some(id) = self.id_of.get(&t) {
            return *id;
        }
        let id = self.types.len() as u32;
        self.id_of.insert(t.clone(), id);
        self.types.push(None);
        self.ty_of.push(t.clone());
        let ty = self.build(id, &t);
        self.types[id as usize] = Some(ty);
        id
    }

    fn prelude1(&mut self, name: &str, pnames: &[&str], args: &[&Ty]) -> (Path<PortableForm>, Vec<TypeParameter<PortableForm>>) {
        let mut params = vec![];
        for (n, a) in pnames.iter().zip(args.iter()) {
            let id = self.intern(a);
            params.push(TypeParameter::new_portable(n.to_string(), Some(sym(id))));
        }
        (mk_path(&[name]), params)
    }

    fn lower_fields(&mut self, d: &Def, fields: &Fields, args: &[Ty]) -> Vec<Field<PortableForm>> {
        let prog = self.prog;
        let r = prog.render_for(d);
        let assoc = assoc_resolver(prog);
        let mut out = vec![];
        for f in fields.list() {
            if matches!(f.ty, Ty::Phantom(_)) {
                continue;
            }
            let closed = f.ty.subst(args, &assoc);
            let type_name = r.ty(&f.ty);
            let id = if f.compact_attr {
                self.intern(&Ty::Compact(Box::new(closed)))
            } else {
                self.intern(&closed)
            };
            out.push(mk_field(f.name.as_deref(), id, Some(type_name), f.docs.clone()));
        }
        out
    }

    fn build(&mut self, id: u32, t: &Ty) -> Type<PortableForm> {
        let none = || Path::<PortableForm>::from_segments_unchecked(Vec::<String>::new());
        match t {
            Ty::Prim(p) => mk_type(none(), vec![], TypeDef::Primitive(prim_def(*p)), vec![]),
            Ty::StrSlice => mk_type(none(), vec![], TypeDef::Primitive(TypeDefPrimitive::Str), vec![]),
            // keyed as the exact pointer type (it sat under another pointer): same content as the pointee
            Ty::Ptr(_, inner) => {
                let k = inner.key();
                self.build(id, &k)
            }
            Ty::Def(d, args) => {
                let def = &self.prog.defs[*d];
                self.insts.push(Inst {
                    id,
                    def: *d,
                    args: args.clone(),
                });
                let mut params = vec![];
                for (p, a) in def.params.iter().zip(args.iter()) {
                    let ty = if p.skipped {
                        None
                    } else {
                        Some(sym(self.intern(a)))
                    };
                    params.push(TypeParameter::new_portable(p.name.clone(), ty));
                }
                let type_def = match &def.body {
                    Body::Struct(f) => TypeDef::Composite(TypeDefComposite {
                        fields: self.lower_fields(def, f, args),
                    }),
                    Body::Enum(vs) => {
                        let mut variants = vec![];
                        for v in vs {
                            variants.push(Variant {
                                name: v.name.clone(),
                                fields: self.lower_fields(def, &v.fields, args),
                                index: v.index,
                                docs: v.docs.clone(),
                            });
                        }
                        TypeDef::Variant(TypeDefVariant { variants })
                    }
                };
                mk_type(
                    Path::from_segments_unchecked(def.path.iter().cloned()),
                    params,
                    type_def,
                    def.docs.clone(),
                )
            }
            Ty::Tuple(a) => {
                let fields = a
                    .iter()
                    .filter(|t| !matches!(t, Ty::Phantom(_)))
                    .map(|t| sym(self.intern(t)))
                    .collect();
                mk_type(none(), vec![], TypeDef::Tuple(TypeDefTuple { fields }), vec![])
            }
            Ty::Array(n, t) => {
                let e = self.intern(t);
                mk_type(
                    none(),
                    vec![],
                    TypeDef::Array(TypeDefArray {
                        len: *n,
                        type_param: sym(e),
                    }),
                    vec![],
                )
            }
            Ty::Seq(_, t) => {
                let e = self.intern(t);
                mk_type(
                    none(),
                    vec![],
                    TypeDef::Sequence(TypeDefSequence { type_param: sym(e) }),
                    vec![],
                )
            }
            Ty::Opt(t) => {
                let (path, params) = self.prelude1("Option", &["T"], &[t]);
                let e = self.intern(t);
                let variants = vec![
                    Variant {
                        name: "None".into(),
                        fields: vec![],
                        index: 0,
                        docs: vec![],
                    },
                    Variant {
                        name: "Some".into(),
                        fields: vec![mk_field(None, e, None, vec![])],
                        index: 1,
                        docs: vec![],
                    },
                ];
                mk_type(path, params, TypeDef::Variant(TypeDefVariant { variants }), vec![])
            }
            Ty::Res(a, b) => {
                let (path, params) = self.prelude1("Result", &["T", "E"], &[a, b]);
                let (ia, ib) = (self.intern(a), self.intern(b));
                let variants = vec![
                    Variant {
                        name: "Ok".into(),
                        fields: vec![mk_field(None, ia, None, vec![])],
                        index: 0,
                        docs: vec![],
                    },
                    Variant {
                        name: "Err".into(),
                        fields: vec![mk_field(None, ib, None, vec![])],
                        index: 1,
                        docs: vec![],
                    },
                ];
                mk_type(path, params, TypeDef::Variant(TypeDefVariant { variants }), vec![])
            }
            Ty::Cow(t) => {
                let (path, params) = self.prelude1("Cow", &["T"], &[t]);
                let e = self.intern(t);
                mk_type(
                    path,
                    params,
                    TypeDef::Composite(TypeDefComposite {
                        fields: vec![mk_field(None, e, None, vec![])],
                    }),
                    vec![],
                )
            }
            Ty::Map(k, v) => {
                let (path, params) = self.prelude1("BTreeMap", &["K", "V"], &[k, v]);
                let inner = Ty::Seq(
                    SeqKind::Vec,
                    Box::new(Ty::Tuple(vec![(**k).clone(), (**v).clone()])),
                );
                let e = self.intern(&inner);
                mk_type(
                    path,
                    params,
                    TypeDef::Composite(TypeDefComposite {
                        fields: vec![mk_field(None, e, None, vec![])],
                    }),
                    vec![],
                )
            }
            Ty::Set(x) | Ty::Heap(x) => {
                let name = if matches!(t, Ty::Set(_)) {
                    "BTreeSet"
                } else {
                    "BinaryHeap"
                };
                let (path, params) = self.prelude1(name, &["T"], &[x]);
                let inner = Ty::Seq(SeqKind::Vec, x.clone());
                let e = self.intern(&inner);
                mk_type(
                    path,
                    params,
                    TypeDef::Composite(TypeDefComposite {
                        fields: vec![mk_field(None, e, None, vec![])],
                    }),
                    vec![],
                )
            }
            Ty::Range(x) | Ty::RangeIncl(x) => {
                let name = if matches!(t, Ty::Range(_)) {
                    "Range"
                } else {
                    "RangeInclusive"
                };
                let (path, params) = self.prelude1(name, &["Idx"], &[x]);
                let e = self.intern(x);
                mk_type(
                    path,
                    params,
                    TypeDef::Composite(TypeDefComposite {
                        fields: vec![
                            mk_field(Some("start"), e, Some("Idx".into()), vec![]),
                            mk_field(Some("end"), e, Some("Idx".into()), vec![]),
                        ],
                    }),
                    vec![],
                )
            }
            Ty::NonZero(p) => {
                let name = format!("NonZero{}", p.name().to_uppercase());
                let e = self.intern(&Ty::Prim(*p));
                mk_type(
                    mk_path(&[&name]),
                    vec![],
                    TypeDef::Composite(TypeDefComposite {
                        fields: vec![mk_field(None, e, None, vec![])],
                    }),
                    vec![],
                )
            }
            Ty::Duration => {
                let a = self.intern(&Ty::Prim(Prim::U64));
                let b = self.intern(&Ty::Prim(Prim::U32));
                mk_type(
                    mk_path(&["Duration"]),
                    vec![],
                    TypeDef::Composite(TypeDefComposite {
                        fields: vec![
                            mk_field(None, a, Some("u64".into()), vec![]),
                            mk_field(None, b, Some("u32".into()), vec![]),
                        ],
                    }),
                    vec![],
                )
            }
            Ty::Compact(x) => {
                let e = self.intern(x);
                mk_type(
                    none(),
                    vec![],
                    TypeDef::Compact(TypeDefCompact { type_param: sym(e) }),
                    vec![],
                )
            }
            Ty::BitVec(store, msb) => {
                let s = self.intern(&Ty::Prim(*store));
                let o = self.intern(&Ty::BitOrder(*msb));
                mk_type(
                    none(),
                    vec![],
                    TypeDef::BitSequence(TypeDefBitSequence {
                        bit_store_type: sym(s),
                        bit_order_type: sym(o),
                    }),
                    vec![],
                )
            }
            Ty::BitOrder(msb) => mk_type(
                mk_path(&["bitvec", "order", if *msb { "Msb0" } else { "Lsb0" }]),
                vec![],
                TypeDef::Composite(TypeDefComposite { fields: vec![] }),
                vec![],
            ),
            Ty::Phantom(_) => mk_type(
                mk_path(&["PhantomData"]),
                vec![],
                TypeDef::Composite(TypeDefComposite { fields: vec![] }),
                vec!["PhantomData placeholder, this type should be filtered out".into()],
            ),
            Ty::Param(_) | Ty::Assoc(_) | Ty::BitVecP(..) => {
                panic!("lower: type is not closed/normalized: {t:?}")
            }
        }
    }
}

pub fn lower(prog: &Program) -> Lowered {
    let mut l = Lowerer {
        prog,
        types: vec![],
        ty_of: vec![],
        id_of: BTreeMap::new(),
        insts: vec![],
    };
    let mut root_ids = vec![];
    for r in &prog.roots {
        root_ids.push(l.intern(r));
    }
    let types = l
        .types
        .into_iter()
        .enumerate()
        .map(|(i, t)| PortableType {
            id: i as u32,
            ty: t.expect("all slots filled"),
        })
        .collect();
    Lowered {
        registry: PortableRegistry { types },
        ty_of: l.ty_of,
        id_of: l.id_of,
        insts: l.insts,
        root_ids,
    }
}

/// Permute the entries of a registry with consistent renumbering: new position of old id `i` is
/// `perm[i]`.
pub fn permute_registry(reg: &PortableRegistry, perm: &[u32]) -> PortableRegistry {
    let m = |s: &Sym| sym(perm[s.id as usize]);
    let mf = |f: &Field<PortableForm>| Field {
        name: f.name.clone(),
        ty: m(&f.ty),
        type_name: f.type_name.clone(),
        docs: f.docs.clone(),
    };
    let mut out: Vec<Option<PortableType>> = vec![None; reg.types.len()];
    for t in &reg.types {
        let ty = &t.ty;
        let def = match &ty.type_def {
            TypeDef::Composite(c) => TypeDef::Composite(TypeDefComposite {
                fields: c.fields.iter().map(mf).collect(),
            }),
            TypeDef::Variant(v) => TypeDef::Variant(TypeDefVariant {
                variants: v
                    .variants
                    .iter()
                    .map(|v| Variant {
                        name: v.name.clone(),
                        fields: v.fields.iter().map(mf).collect(),
                        index: v.index,
                        docs: v.docs.clone(),
                    })
                    .collect(),
            }),
            TypeDef::Sequence(s) => TypeDef::Sequence(TypeDefSequence {
                type_param: m(&s.type_param),
            }),
            TypeDef::Array(a) => TypeDef::Array(TypeDefArray {
                len: a.len,
                type_param: m(&a.type_param),
            }),
            TypeDef::Tuple(tu) => TypeDef::Tuple(TypeDefTuple {
                fields: tu.fields.iter().map(m).collect(),
            }),
            TypeDef::Primitive(p) => TypeDef::Primitive(p.clone()),
            TypeDef::Compact(c) => TypeDef::Compact(TypeDefCompact {
                type_param: m(&c.type_param),
            }),
            TypeDef::BitSequence(b) => TypeDef::BitSequence(TypeDefBitSequence {
                bit_store_type: m(&b.bit_store_type),
                bit_order_type: m(&b.bit_order_type),
            }),
        };
        let new = Type {
            path: ty.path.clone(),
            type_params: ty
                .type_params
                .iter()
                .map(|p| TypeParameter::new_portable(p.name.clone(), p.ty.as_ref().map(m)))
                .collect(),
            type_def: def,
            docs: ty.docs.clone(),
        };
        let nid = perm[t.id as usize];
        out[nid as usize] = Some(PortableType { id: nid, ty: new });
    }
    PortableRegistry {
        types: out.into_iter().map(|t| t.expect("perm is a bijection")).collect(),
    }
}

pub fn registry_json(reg: &PortableRegistry) -> serde_json::Value {
    serde_json::to_value(reg).expect("registry serialises")
}
