//! Settings domain (DESIGN.md 3.5): a library-independent spec (list of builder arguments)
//! that can be printed in replays and built into a `TypeGeneratorSettings`.

use crate::tape::Tape;
use scale_info::PortableRegistry;
use scale_typegen::typegen::settings::substitutes::absolute_path;
use scale_typegen::typegen::settings::AllocCratePath;
use scale_typegen::TypeGeneratorSettings;
use serde_json::{json, Value};
use std::collections::BTreeSet;

#[derive(Clone, Debug, PartialEq, Eq)]
pub struct PathReg {
    pub path: String,
    pub derives: Vec<String>,
    pub attrs: Vec<String>,
    pub recursive: bool,
}

#[derive(Clone, Debug, PartialEq, Eq)]
pub struct SettingsSpec {
    pub root: String,
    pub alloc: Option<String>,
    pub docs: bool,
    pub codec: bool,
    pub compact_path: Option<String>,
    pub bits_path: Option<String>,
    pub compact_as: Option<String>,
    pub global_derives: Vec<String>,
    pub global_attrs: Vec<String>,
    pub specific: Vec<PathReg>,
    /// (source path with optional generics, absolute target)
    pub substitutes: Vec<(String, String)>,
}

pub const COMPACT_PATH: &str = "::vsupport::codec::Compact";
pub const BITS_PATH: &str = "::vsupport::bits::DecodedBits";
pub const COMPACT_AS_PATH: &str = "::vsupport::codec::CompactAs";

pub const DERIVE_POOL: [&str; 10] = [
    "Debug",
    "Clone",
    "PartialEq",
    "Eq",
    "::vsupport::codec::Encode",
    "::vsupport::codec::Decode",
    "serde::Serialize",
    "Zeta",
    "alpha::Beta",
    "Hash",
];
pub const ATTR_POOL: [&str; 10] = [
    "#[allow(dead_code)]",
    "#[serde(crate = \"x\")]",
    "#[repr(C)]",
    "#[must_use]",
    "#[zz_last]",
    "#[aa_first(k = 1)]",
    "#[cfg_attr(test, derive(Default))]",
    "#[codec(crate = ::vsupport::codec)]",
    // two more attributes that share their name with one above (an ordering by name alone is not an ordering)
    "#[allow(unused)]",
    "#[serde(rename_all = \"camelCase\")]",
];

impl Default for SettingsSpec {
    fn default() -> Self {
        SettingsSpec {
            root: "types".into(),
            alloc: None,
            docs: true,
            codec: true,
            compact_path: Some(COMPACT_PATH.into()),
            bits_path: Some(BITS_PATH.into()),
            compact_as: None,
            global_derives: vec![],
            global_attrs: vec![],
            specific: vec![],
            substitutes: vec![],
        }
    }
}

pub fn parse_attr(s: &str) -> syn::Attribute {
    let f: syn::ItemStruct = syn::parse_str(&format!("{s} struct X;")).expect("attribute parses");
    f.attrs.into_iter().next().expect("one attribute")
}

impl SettingsSpec {
    pub fn build(&self) -> TypeGeneratorSettings {
        let mut s = TypeGeneratorSettings::new().type_mod_name(&self.root);
        // Both ways of configuring are public API: the builder methods and the public fields. Which one a spec
        // uses is a function of the spec (so that a replay builds the same settings).
        let via_builder = (self.root.len() + self.global_derives.len() + self.global_attrs.len()) % 2 == 0;
        if via_builder {
            s = s.should_gen_docs(self.docs);
            if self.codec {
                s = s.insert_codec_attributes();
            }
            if let Some(p) = &self.compact_path {
                s = s.compact_type_path(syn::parse_str(p).unwrap());
            }
            if let Some(p) = &self.bits_path {
                s = s.decoded_bits_type_path(syn::parse_str(p).unwrap());
            }
            if let Some(p) = &self.compact_as {
                s = s.compact_as_type_path(syn::parse_str(p).unwrap());
            }
            s = s.add_derives_for_all(self.global_derives.iter().map(|d| syn::parse_str(d).unwrap()));
        } else {
            s.should_gen_docs = self.docs;
            s.insert_codec_attributes = self.codec;
            s.compact_type_path = self.compact_path.as_ref().map(|p| syn::parse_str(p).unwrap());
            s.decoded_bits_type_path = self.bits_path.as_ref().map(|p| syn::parse_str(p).unwrap());
            s.compact_as_type_path = self.compact_as.as_ref().map(|p| syn::parse_str(p).unwrap());
            s.derives
                .add_derives_for_all(self.global_derives.iter().map(|d| syn::parse_str(d).unwrap()));
        }
        if let Some(a) = &self.alloc {
            s.alloc_crate_path = AllocCratePath::Custom(syn::parse_str(a).expect("alloc path"));
        }
        s.derives
            .add_attributes_for_all(self.global_attrs.iter().map(|a| parse_attr(a)));
        for r in &self.specific {
            let tp: syn::TypePath = syn::parse_str(&r.path).expect("type path");
            if !r.derives.is_empty() {
                s.derives.add_derives_for(
                    tp.clone(),
                    r.derives.iter().map(|d| syn::parse_str(d).unwrap()),
                    r.recursive,
                );
            }
            if !r.attrs.is_empty() {
                s.derives
                    .add_attributes_for(tp, r.attrs.iter().map(|a| parse_attr(a)), r.recursive);
            }
        }
        for (src, dst) in &self.substitutes {
            let sp: syn::Path = syn::parse_str(src).expect("substitute source");
            let dp: syn::Path = syn::parse_str(dst).expect("substitute target");
            if via_builder {
                s = s.substitute(sp, dp);
            } else {
                s.substitutes
                    .insert(sp, absolute_path(dp).expect("absolute target"))
                    .expect("valid substitute");
            }
        }
        s
    }

    pub fn from_json(v: &Value) -> Option<SettingsSpec> {
        let strs = |x: &Value| -> Vec<String> {
            x.as_array()
                .map(|a| a.iter().filter_map(|s| s.as_str().map(|s| s.to_string())).collect())
                .unwrap_or_default()
        };
        let opt = |x: &Value| x.as_str().map(|s| s.to_string());
        Some(SettingsSpec {
            root: v["root"].as_str()?.to_string(),
            alloc: opt(&v["alloc"]),
            docs: v["docs"].as_bool()?,
            codec: v["codec"].as_bool()?,
            compact_path: opt(&v["compact_path"]),
            bits_path: opt(&v["bits_path"]),
            compact_as: opt(&v["compact_as"]),
            global_derives: strs(&v["global_derives"]),
            global_attrs: strs(&v["global_attrs"]),
            specific: v["specific"]
                .as_array()?
                .iter()
                .map(|r| PathReg {
                    path: r["path"].as_str().unwrap_or("").to_string(),
                    derives: strs(&r["derives"]),
                    attrs: strs(&r["attrs"]),
                    recursive: r["recursive"].as_bool().unwrap_or(false),
                })
                .collect(),
            substitutes: v["substitutes"]
                .as_array()?
                .iter()
                .filter_map(|p| Some((p[0].as_str()?.to_string(), p[1].as_str()?.to_string())))
                .collect(),
        })
    }

    pub fn to_json(&self) -> Value {
        json!({
            "root": self.root, "alloc": self.alloc, "docs": self.docs, "codec": self.codec,
            "compact_path": self.compact_path, "bits_path": self.bits_path, "compact_as": self.compact_as,
            "global_derives": self.global_derives, "global_attrs": self.global_attrs,
            "specific": self.specific.iter().map(|r| json!({"path": r.path, "derives": r.derives, "attrs": r.attrs, "recursive": r.recursive})).collect::<Vec<_>>(),
            "substitutes": self.substitutes,
        })
    }
}

/// distinct namespaced paths of struct/enum types in a registry (registry order)
pub fn user_paths(reg: &PortableRegistry) -> Vec<Vec<String>> {
    let mut seen = BTreeSet::new();
    let mut out = vec![];
    for t in &reg.types {
        let p = &t.ty.path.segments;
        if p.len() >= 2 && seen.insert(p.clone()) {
            out.push(p.clone());
        }
    }
    out
}

pub fn registry_segments(reg: &PortableRegistry) -> BTreeSet<String> {
    reg.types
        .iter()
        .flat_map(|t| t.ty.path.segments.iter().cloned())
        .collect()
}

pub fn pick_root(t: &mut Tape, reg: &PortableRegistry) -> String {
    let segs = registry_segments(reg);
    let start = t.choose(crate::gen::ROOT_MOD_NAMES.len());
    for k in 0..crate::gen::ROOT_MOD_NAMES.len() {
        let n = crate::gen::ROOT_MOD_NAMES[(start + k) % crate::gen::ROOT_MOD_NAMES.len()];
        if !segs.contains(n) {
            return n.to_string();
        }
    }
    "zz_root_mod".to_string()
}

#[derive(Clone, Debug)]
pub struct SettingsOpts {
    pub substitutes: bool,
    pub per_path: bool,
    pub recursive: bool,
    pub compact_as: bool,
    pub vary_switches: bool,
    /// substitute the bit order marker types (as every real configuration does)
    pub subst_bit_order: bool,
}

impl SettingsOpts {
    pub fn wire() -> Self {
        SettingsOpts {
            substitutes: false,
            per_path: true,
            recursive: true,
            compact_as: true,
            vary_switches: true,
            subst_bit_order: true,
        }
    }
}

/// settings for the wire-fidelity family (C01/C02/C03/C18 ...): codec attributes on
pub fn gen_settings(t: &mut Tape, reg: &PortableRegistry, o: &SettingsOpts) -> SettingsSpec {
    let mut s = SettingsSpec::default();
    s.root = pick_root(t, reg);
    if o.vary_switches {
        s.alloc = match t.weighted(&[3, 2, 1]) {
            0 => None,
            1 => Some("::alloc".into()),
            _ => Some("::some_crate::alloc".into()),
        };
        s.docs = !t.chance(100);
    }
    let nd = t.weighted(&[2, 1, 2, 2, 2]);
    let mut pool: Vec<&str> = DERIVE_POOL.to_vec();
    for _ in 0..nd {
        if pool.is_empty() {
            break;
        }
        let i = t.choose(pool.len());
        s.global_derives.push(pool.remove(i).to_string());
    }
    let na = t.weighted(&[3, 2, 1, 1]);
    let mut pool: Vec<&str> = ATTR_POOL.to_vec();
    for _ in 0..na {
        let i = t.choose(pool.len());
        s.global_attrs.push(pool.remove(i).to_string());
    }
    if o.compact_as && t.chance(130) {
        s.compact_as = Some(COMPACT_AS_PATH.into());
    }
    let paths = user_paths(reg);
    if o.per_path && !paths.is_empty() {
        let n = t.weighted(&[3, 2, 2, 1]);
        for _ in 0..n {
            let p = &paths[t.choose(paths.len())];
            let recursive = o.recursive && t.chance(100);
            let d = DERIVE_POOL[t.choose(DERIVE_POOL.len())].to_string();
            let mut attrs = vec![];
            if t.chance(80) {
                attrs.push(ATTR_POOL[t.choose(ATTR_POOL.len())].to_string());
            }
            s.specific.push(PathReg {
                path: p.join("::"),
                derives: vec![d],
                attrs,
                recursive,
            });
        }
    }
    if o.subst_bit_order {
        for (n, seg) in [("Lsb0", "Lsb0"), ("Msb0", "Msb0")] {
            let src = vec!["bitvec".to_string(), "order".to_string(), n.to_string()];
            if paths.contains(&src) {
                s.substitutes.push((
                    format!("bitvec::order::{seg}"),
                    format!("::vsupport::bits::{seg}"),
                ));
            }
        }
    }
    s
}
