//! Tape-driven generator of source programs (DESIGN.md 3.1, Appendix A).

use crate::program::*;
use crate::tape::Tape;
use std::collections::{BTreeMap, BTreeSet};

#[derive(Clone, Debug)]
pub struct GenOpts {
    pub max_defs: usize,
    pub max_params: usize,
    /// associated-type (Config-trait) definitions
    pub assoc: bool,
    /// two different definitions sharing one path
    pub two_versions: bool,
    /// user types called Cow / Option / MyBox ... under a namespace
    pub lookalike: bool,
    /// type names that end in digits (Foo1, V2)
    pub digit_names: bool,
    pub bits: bool,
    pub compact: bool,
    pub chars: bool,
    pub duration: bool,
    /// Cow around something that mentions a type parameter
    pub cow_param: bool,
    pub cow: bool,
    /// recursion (self / forward references under heap indirection)
    pub recursion: bool,
    /// U256 / I256 primitives ("manual type info")
    pub manual_prims: bool,
    /// PhantomData fields
    pub phantom: bool,
    /// skipped type params
    pub skipped: bool,
    /// `S: BitStore` / `O: BitOrder` parameters used as `BitVec<S, O>`
    pub bit_params: bool,
    /// path-qualified spelling of std/codec types in the source (`codec::Compact<T>`, `alloc::boxed::Box<T>`)
    pub qualified_names: bool,
    /// two-version definitions that are a copy of the first version with ONE mutation (near misses)
    pub near_miss: bool,
    /// array lengths written as a const generic parameter (`[T; N]`) in definitions with one array
    pub const_generic_arrays: bool,
    /// always add a second version of a whole group of definitions (see `near_miss_group_version`)
    pub force_group_version: bool,
    /// `#[codec(compact)] f: ()` and `Compact<()>` (`()` is HasCompact, its encoding is empty)
    pub compact_unit: bool,
    /// skipped parameters may occur in field types (needs custom bounds in real Rust; behaves
    /// like an associated type). Off: skipped parameters occur only in PhantomData fields.
    pub skipped_in_fields: bool,
    /// maps/sets/heaps only over Ord std key types (needed by the rustc tier)
    pub ord_keys_only: bool,
    /// transparent pointers other than Box (Rc, Arc, &)
    pub other_ptrs: bool,
    pub docs: bool,
}

impl GenOpts {
    pub fn full() -> Self {
        GenOpts {
            max_defs: 8,
            max_params: 3,
            assoc: true,
            two_versions: true,
            lookalike: true,
            digit_names: true,
            bits: true,
            compact: true,
            chars: true,
            duration: true,
            cow_param: true,
            cow: true,
            recursion: true,
            manual_prims: false,
            phantom: true,
            skipped: true,
            bit_params: true,
            qualified_names: true,
            near_miss: true,
            compact_unit: true,
            force_group_version: false,
            const_generic_arrays: true,
            skipped_in_fields: false,
            ord_keys_only: false,
            other_ptrs: true,
            docs: true,
        }
    }
    /// domain used by properties that need unique paths and plain definitions
    pub fn plain() -> Self {
        GenOpts {
            assoc: false,
            two_versions: false,
            lookalike: false,
            ..Self::full()
        }
    }
}

const CRATES: [&str; 4] = ["krate", "sp_core", "pallet_x", "frame"];
const MODS: [&str; 8] = ["a", "b", "types", "v1", "v2", "inner", "pallet", "m_9"];
const TYPE_NAMES: [&str; 16] = [
    "Foo", "Bar", "Baz", "Event", "Call", "Error", "Header", "Node", "Item", "Wrapper", "Alpha",
    "Beta", "Info", "Data", "Kind", "State",
];
const DIGIT_NAMES: [&str; 6] = ["Foo1", "Foo2", "Bar1", "V2", "Header1", "Item10"];
const LOOKALIKE_NAMES: [&str; 8] = [
    "Cow", "Option", "MyBox", "Vec", "Result", "BTreeMap", "BoxedThing", "Compact",
];
const FIELD_NAMES: [&str; 14] = [
    "a", "b", "c", "value", "data", "next", "inner", "hash", "who", "amount", "index", "kind",
    "flag", "x_1",
];
const VARIANT_NAMES: [&str; 12] = [
    "A", "B", "C", "None", "Some", "Ok", "Transfer", "Bid", "Leaf", "Branch", "V1", "Empty",
];
const PARAM_NAMES: [&str; 4] = ["T", "U", "V", "W"];
const DOC_LINES: [&str; 8] = [
    "A doc line",
    "with \"quotes\" and \\ backslash",
    "mentions std::vec::Vec and ::std",
    "{braces} <angles> (parens)",
    "",
    "ünïcödé ✓",
    " leading space kept",
    "#[attr] // comment /* block */",
];

pub const ROOT_MOD_NAMES: [&str; 4] = ["types", "root", "runtime_types", "api_types"];

struct Header {
    path: Vec<String>,
    params: Vec<ParamDecl>,
    is_config: bool,
    /// body = body of that earlier definition with one mutation
    clone_of: Option<usize>,
}

pub struct Generated {
    pub prog: Program,
    pub labels: BTreeSet<&'static str>,
    /// primitives reserved for generic arguments (kept out of bodies to avoid coincidences)
    pub arg_prims: Vec<Prim>,
}

struct G<'t, 'a> {
    t: &'t mut Tape<'a>,
    o: &'t GenOpts,
    headers: Vec<Header>,
    body_prims: Vec<Prim>,
    arg_prims: Vec<Prim>,
    /// indices of non-generic single-uint-field wrapper structs (bodies already generated)
    wrappers: Vec<usize>,
    labels: BTreeSet<&'static str>,
    /// bodies generated so far (index < cur)
    bodies: Vec<Body>,
    config_defs: Vec<usize>,
}

#[derive(Clone, Copy)]
struct Ctx {
    /// index of the definition whose body is being generated
    cur: usize,
    heap: bool,
    depth: u32,
    /// inside generic arguments of a reference to another definition
    in_args: bool,
    /// type must not mention parameters
    closed: bool,
    /// arguments of a root instantiation (drawn from the reserved argument primitives)
    root_args: bool,
}

impl<'t, 'a> G<'t, 'a> {
    fn docs(&mut self) -> Vec<String> {
        if !self.o.docs || !self.t.chance(70) {
            return vec![];
        }
        let n = 1 + self.t.choose(3);
        (0..n)
            .map(|_| DOC_LINES[self.t.choose(DOC_LINES.len())].to_string())
            .collect()
    }

    fn prim(&mut self, pool_args: bool) -> Prim {
        let pool = if pool_args && !self.arg_prims.is_empty() {
            &self.arg_prims
        } else {
            &self.body_prims
        };
        pool[self.t.choose(pool.len())]
    }

    /// leaf type: a body primitive, or - inside the generic arguments of a reference written in
    /// the body of definition `cur` - an "atom" `[p; 5+cur]` that occurs nowhere else, so that
    /// arguments never coincide with component types of the definition they are passed to.
    fn leaf(&mut self, c: Ctx) -> Ty {
        if c.in_args {
            let p = self.prim(false);
            Ty::Array(5 + c.cur as u32 + if c.closed { 16 } else { 0 }, Box::new(Ty::Prim(p)))
        } else {
            Ty::Prim(self.prim(false))
        }
    }

    /// unsigned integer, preferably one of the body primitives (keeps programs coincidence-free)
    fn uint(&mut self) -> Prim {
        self.from_pool(&Prim::UINTS)
    }

    fn from_pool(&mut self, allowed: &[Prim]) -> Prim {
        let pool: Vec<Prim> = self
            .body_prims
            .iter()
            .copied()
            .filter(|p| allowed.contains(p))
            .collect();
        if pool.is_empty() {
            allowed[self.t.choose(allowed.len())]
        } else {
            pool[self.t.choose(pool.len())]
        }
    }

    fn live_params(&self, cur: usize) -> Vec<usize> {
        self.headers[cur]
            .params
            .iter()
            .enumerate()
            .filter(|(_, p)| !p.config && !p.bitstore && !p.bitorder && (!p.skipped || self.o.skipped_in_fields))
            .map(|(i, _)| i)
            .collect()
    }

    fn compact_params(&self, cur: usize) -> Vec<usize> {
        self.headers[cur]
            .params
            .iter()
            .enumerate()
            .filter(|(_, p)| p.compactable)
            .map(|(i, _)| i)
            .collect()
    }

    /// an argument for a `S: BitStore` (store = true) or `O: BitOrder` parameter position
    fn bit_arg(&mut self, store: bool, c: Ctx) -> Ty {
        let mine: Vec<usize> = self.headers[c.cur]
            .params
            .iter()
            .enumerate()
            .filter(|(_, p)| if store { p.bitstore } else { p.bitorder })
            .map(|(i, _)| i)
            .collect();
        if !c.closed && !c.root_args && !mine.is_empty() && self.t.chance(180) {
            return Ty::Param(mine[self.t.choose(mine.len())]);
        }
        if store {
            let all = [Prim::U8, Prim::U16, Prim::U32, Prim::U64];
            let pool: Vec<Prim> = self.arg_prims.iter().copied().filter(|p| all.contains(p)).collect();
            if c.root_args && !pool.is_empty() {
                return Ty::Prim(pool[self.t.choose(pool.len())]);
            }
            Ty::Prim(all[self.t.choose(4)])
        } else {
            Ty::BitOrder(self.t.flag())
        }
    }

    /// an argument for a `T: HasCompact` parameter position
    fn compactable_arg(&mut self, c: Ctx) -> Ty {
        let mine = self.compact_params(c.cur);
        if !c.closed && !c.root_args && !mine.is_empty() && self.t.chance(180) {
            return Ty::Param(mine[self.t.choose(mine.len())]);
        }
        if !self.wrappers.is_empty() && self.t.chance(80) {
            let w: Vec<usize> = self.wrappers.iter().copied().filter(|w| *w < c.cur || c.root_args).collect();
            if !w.is_empty() {
                return Ty::Def(w[self.t.choose(w.len())], vec![]);
            }
        }
        // an unsigned integer, from the reserved argument primitives if possible
        let pool: Vec<Prim> = self.arg_prims.iter().copied().filter(|p| p.is_uint()).collect();
        if !pool.is_empty() {
            return Ty::Prim(pool[self.t.choose(pool.len())]);
        }
        let others: Vec<Prim> = Prim::UINTS.iter().copied().filter(|p| !self.body_prims.contains(p)).collect();
        if !others.is_empty() {
            return Ty::Prim(others[self.t.choose(others.len())]);
        }
        Ty::Prim(Prim::UINTS[self.t.choose(5)])
    }

    fn config_params(&self, cur: usize) -> Vec<usize> {
        self.headers[cur]
            .params
            .iter()
            .enumerate()
            .filter(|(_, p)| p.config)
            .map(|(i, _)| i)
            .collect()
    }

    /// arguments for a reference to definition `d`
    fn args_for(&mut self, d: usize, c: Ctx) -> Vec<Ty> {
        let n = self.headers[d].params.len();
        let mut out = vec![];
        for i in 0..n {
            if self.headers[d].params[i].config {
                // must be a config definition (or a config parameter of ours passed through)
                let mine = self.config_params(c.cur);
                if !c.closed && !mine.is_empty() && self.t.flag() {
                    out.push(Ty::Param(mine[self.t.choose(mine.len())]));
                } else {
                    let k = self.config_defs[self.t.choose(self.config_defs.len())];
                    out.push(Ty::Def(k, vec![]));
                }
            } else if self.headers[d].params[i].compactable {
                let a = self.compactable_arg(c);
                out.push(a);
            } else if self.headers[d].params[i].bitstore || self.headers[d].params[i].bitorder {
                let a = self.bit_arg(self.headers[d].params[i].bitstore, c);
                out.push(a);
            } else {
                let cc = Ctx {
                    in_args: true,
                    depth: c.depth + 1,
                    ..c
                };
                let mut a = self.ty(cc);
                let mut tries = 0;
                while out.contains(&a) && tries < 3 {
                    a = self.ty(cc);
                    tries += 1;
                }
                out.push(a);
            }
        }
        out
    }

    fn ty(&mut self, c: Ctx) -> Ty {
        if !self.t.take_fuel(1) || c.depth > 4 {
            return self.leaf(c);
        }
        let params = if c.closed {
            vec![]
        } else {
            self.live_params(c.cur)
        };
        let sub = |h: bool| Ctx {
            heap: c.heap || h,
            depth: c.depth + 1,
            ..c
        };
        // alternatives, simplest first
        let w_param = if params.is_empty() { 0 } else { 5 };
        let w_def = if c.cur > 0 || self.o.recursion { 4 } else { 0 };
        let w = [
            6,       // 0 prim
            w_param, // 1 param
            3,       // 2 Vec
            2,       // 3 Option
            2,       // 4 tuple
            2,       // 5 array
            w_def,   // 6 def reference
            2,       // 7 Box
            4,       // 8 exotic
        ];
        match self.t.weighted(&w) {
            0 => self.leaf(c),
            1 => Ty::Param(params[self.t.choose(params.len())]),
            2 => {
                let k = if self.t.chance(40) {
                    self.labels.insert("vecdeque");
                    SeqKind::VecDeque
                } else {
                    SeqKind::Vec
                };
                Ty::Seq(k, Box::new(self.ty(sub(true))))
            }
            3 => Ty::Opt(Box::new(self.ty(sub(false)))),
            4 => {
                let n = self.t.weighted(&[1, 2, 4, 2, 1]);
                if n == 1 {
                    self.labels.insert("one_tuple");
                }
                if n == 0 {
                    self.labels.insert("unit_tuple");
                }
                Ty::Tuple((0..n).map(|_| self.ty(sub(false))).collect())
            }
            5 => {
                let n = [0u32, 1, 2, 3, 4, 32, 33][self.t.weighted(&[1, 2, 3, 3, 2, 1, 1])];
                Ty::Array(n, Box::new(self.ty(sub(false))))
            }
            6 => self.def_ref(c),
            7 => {
                self.labels.insert("box");
                // CF3: never Box directly around a parameter at field top level
                let inner = self.ty(sub(true));
                if c.depth == 0 && matches!(inner, Ty::Param(_)) {
                    Ty::Ptr(PtrKind::Box, Box::new(Ty::Tuple(vec![inner])))
                } else {
                    Ty::Ptr(PtrKind::Box, Box::new(inner))
                }
            }
            _ => self.exotic(c),
        }
    }

    fn def_ref(&mut self, c: Ctx) -> Ty {
        // backward reference (smaller index) anywhere; self / forward reference only under heap
        let n = self.headers.len();
        let candidates_back: Vec<usize> = (0..c.cur).filter(|i| !self.headers[*i].is_config).collect();
        let can_fwd = self.o.recursion && c.heap;
        let pick_fwd = can_fwd && (candidates_back.is_empty() || self.t.chance(90));
        if pick_fwd {
            self.labels.insert("recursion");
            let fwd: Vec<usize> = (c.cur..n).filter(|i| !self.headers[*i].is_config).collect();
            let d = fwd[self.t.choose(fwd.len())];
            if d == c.cur && !c.closed {
                // self reference with identity parameters
                let args = (0..self.headers[d].params.len()).map(Ty::Param).collect();
                return Ty::Def(d, args);
            }
            // forward reference with closed constant arguments (keeps the closure finite)
            let cc = Ctx {
                closed: true,
                in_args: true,
                // closed args of forward refs may only use smaller definitions: emulate by cur=0
                cur: c.cur,
                depth: c.depth + 1,
                heap: false,
                root_args: false,
            };
            let args = self.closed_args_small(d, cc);
            return Ty::Def(d, args);
        }
        if candidates_back.is_empty() {
            return self.leaf(c);
        }
        let d = candidates_back[self.t.choose(candidates_back.len())];
        if !self.headers[d].params.is_empty() {
            self.labels.insert("nested_generic_ref");
        }
        let args = self.args_for(d, c);
        Ty::Def(d, args)
    }

    /// closed arguments built from argument-pool primitives only
    fn closed_args_small(&mut self, d: usize, c: Ctx) -> Vec<Ty> {
        let n = self.headers[d].params.len();
        let mut out: Vec<Ty> = vec![];
        for i in 0..n {
            if self.headers[d].params[i].config {
                let k = self.config_defs[self.t.choose(self.config_defs.len())];
                out.push(Ty::Def(k, vec![]));
                continue;
            }
            if self.headers[d].params[i].compactable {
                let a = self.compactable_arg(Ctx { closed: true, ..c });
                out.push(a);
                continue;
            }
            if self.headers[d].params[i].bitstore || self.headers[d].params[i].bitorder {
                let a = self.bit_arg(self.headers[d].params[i].bitstore, Ctx { closed: true, ..c });
                out.push(a);
                continue;
            }
            let mut tries = 0;
            loop {
                let leaf = |g: &mut Self| {
                    if c.root_args {
                        Ty::Prim(g.prim(true))
                    } else {
                        g.leaf(Ctx { in_args: true, closed: true, ..c })
                    }
                };
                let a = match self.t.weighted(&[4, 1, 1]) {
                    0 => leaf(self),
                    1 => Ty::Seq(SeqKind::Vec, Box::new(leaf(self))),
                    _ => Ty::Tuple(vec![leaf(self), leaf(self)]),
                };
                tries += 1;
                if !out.contains(&a) || tries > 4 {
                    out.push(a);
                    break;
                }
            }
        }
        out
    }

    fn key_ty(&mut self, c: Ctx) -> Ty {
        if self.o.ord_keys_only {
            let ints = [Prim::U8, Prim::U16, Prim::U32, Prim::U64, Prim::I32, Prim::Bool];
            return match self.t.weighted(&[4, 1]) {
                0 => Ty::Prim(ints[self.t.choose(ints.len())]),
                _ => Ty::Tuple(vec![
                    Ty::Prim(ints[self.t.choose(ints.len())]),
                    Ty::Prim(Prim::Str),
                ]),
            };
        }
        self.ty(Ctx {
            heap: true,
            depth: c.depth + 1,
            ..c
        })
    }

    fn exotic(&mut self, c: Ctx) -> Ty {
        let sub = |h: bool| Ctx {
            heap: c.heap || h,
            depth: c.depth + 1,
            ..c
        };
        let o = self.o.clone();
        let w = [
            2,                                   // 0 map
            2,                                   // 1 set
            1,                                   // 2 heap
            if o.cow { 3 } else { 0 },           // 3 cow
            if o.other_ptrs { 2 } else { 0 },    // 4 rc/arc/ref
            2,                                   // 5 result
            2,                                   // 6 range
            1,                                   // 7 nonzero
            if o.duration { 1 } else { 0 },      // 8 duration
            if o.compact { 3 } else { 0 },       // 9 compact
            if o.bits { 2 } else { 0 },          // 10 bitvec
            2,                                   // 11 &'static str / Box<[T]>
        ];
        match self.t.weighted(&w) {
            0 => {
                self.labels.insert("btreemap");
                let k = self.key_ty(c);
                Ty::Map(Box::new(k), Box::new(self.ty(sub(true))))
            }
            1 => {
                self.labels.insert("btreeset");
                Ty::Set(Box::new(self.key_ty(c)))
            }
            2 => {
                self.labels.insert("binaryheap");
                Ty::Heap(Box::new(self.key_ty(c)))
            }
            3 => {
                self.labels.insert("cow");
                match self.t.weighted(&[3, 2, 2]) {
                    0 => Ty::Cow(Box::new(Ty::StrSlice)),
                    1 => {
                        let cc = if o.cow_param { sub(true) } else { Ctx { closed: true, ..sub(true) } };
                        let inner = self.ty(cc);
                        if inner.mentions_param() {
                            self.labels.insert("cow_over_param");
                        }
                        Ty::Cow(Box::new(Ty::Seq(SeqKind::Slice, Box::new(inner))))
                    }
                    _ => {
                        let cc = if o.cow_param { sub(false) } else { Ctx { closed: true, ..sub(false) } };
                        let inner = self.ty(cc);
                        if inner.mentions_param() {
                            self.labels.insert("cow_over_param");
                        }
                        Ty::Cow(Box::new(inner))
                    }
                }
            }
            4 => {
                self.labels.insert("rc_arc_ref");
                let k = [PtrKind::Rc, PtrKind::Arc, PtrKind::Ref][self.t.choose(3)];
                // other pointers only in non-recursive positions: children are not "heap" and
                // CF3: not directly around a parameter
                let inner = self.ty(Ctx {
                    heap: false,
                    depth: c.depth + 1,
                    ..c
                });
                if matches!(inner, Ty::Param(_)) {
                    Ty::Ptr(k, Box::new(Ty::Tuple(vec![inner])))
                } else {
                    Ty::Ptr(k, Box::new(inner))
                }
            }
            5 => Ty::Res(Box::new(self.ty(sub(false))), Box::new(self.ty(sub(false)))),
            6 => {
                self.labels.insert("range");
                let p = Ty::Prim(self.from_pool(&[Prim::U8, Prim::U32, Prim::I64, Prim::U128, Prim::U16, Prim::I32]));
                if self.t.flag() {
                    Ty::Range(Box::new(p))
                } else {
                    Ty::RangeIncl(Box::new(p))
                }
            }
            7 => {
                self.labels.insert("nonzero");
                let ps = [
                    Prim::U8,
                    Prim::U16,
                    Prim::U32,
                    Prim::U64,
                    Prim::U128,
                    Prim::I8,
                    Prim::I16,
                    Prim::I32,
                    Prim::I64,
                    Prim::I128,
                ];
                Ty::NonZero(ps[self.t.choose(ps.len())])
            }
            8 => {
                self.labels.insert("duration");
                Ty::Duration
            }
            9 => {
                self.labels.insert("compact_type");
                let cps = if c.closed { vec![] } else { self.compact_params(c.cur) };
                if !cps.is_empty() && self.t.chance(150) {
                    self.labels.insert("compact_type_over_parameter");
                    Ty::Compact(Box::new(Ty::Param(cps[self.t.choose(cps.len())])))
                } else if !self.wrappers.is_empty() && self.t.chance(70) {
                    self.labels.insert("compact_wrapper");
                    let w = self.wrappers[self.t.choose(self.wrappers.len())];
                    Ty::Compact(Box::new(Ty::Def(w, vec![])))
                } else {
                    if self.o.compact_unit && self.t.chance(30) {
                        self.labels.insert("compact_unit");
                        Ty::Compact(Box::new(Ty::Tuple(vec![])))
                    } else {
                        Ty::Compact(Box::new(Ty::Prim(self.uint())))
                    }
                }
            }
            10 => {
                self.labels.insert("bitvec");
                let store = self.from_pool(&[Prim::U8, Prim::U16, Prim::U32, Prim::U64]);
                let msb = self.t.flag();
                let sp: Vec<usize> = self.headers[c.cur].params.iter().enumerate().filter(|(_, p)| p.bitstore).map(|(i, _)| i).collect();
                let op: Vec<usize> = self.headers[c.cur].params.iter().enumerate().filter(|(_, p)| p.bitorder).map(|(i, _)| i).collect();
                if !c.closed && (!sp.is_empty() || !op.is_empty()) && self.t.chance(200) {
                    self.labels.insert("bitvec_over_parameter");
                    let s = if !sp.is_empty() { Ty::Param(sp[self.t.choose(sp.len())]) } else { Ty::Prim(store) };
                    let o = if !op.is_empty() { Ty::Param(op[self.t.choose(op.len())]) } else { Ty::BitOrder(msb) };
                    Ty::BitVecP(Box::new(s), Box::new(o))
                } else {
                    Ty::BitVec(store, msb)
                }
            }
            _ => {
                if self.t.flag() {
                    Ty::Ptr(PtrKind::Ref, Box::new(Ty::StrSlice))
                } else {
                    self.labels.insert("box");
                    Ty::Ptr(
                        PtrKind::Box,
                        Box::new(Ty::Seq(SeqKind::Slice, Box::new(self.ty(sub(true))))),
                    )
                }
            }
        }
    }

    fn fields(&mut self, cur: usize, max: usize) -> Fields {
        let kind = self.t.weighted(&[1, 4, 3]);
        if kind == 0 {
            return Fields::Unit;
        }
        let n = 1 + self.t.weighted(&[3, 3, 2, 1, 1][..max.min(5)]);
        let mut used = BTreeSet::new();
        let mut out = vec![];
        for _ in 0..n {
            let c = Ctx {
                cur,
                heap: false,
                depth: 0,
                in_args: false,
                closed: false,
                root_args: false,
            };
            let mut compact_attr = false;
            let cfg = self.config_params(cur);
            let ty = if !cfg.is_empty() && self.t.chance(140) {
                self.labels.insert("assoc_field");
                let a = Ty::Assoc(cfg[self.t.choose(cfg.len())]);
                match self.t.weighted(&[3, 1, 1]) {
                    0 => a,
                    1 => Ty::Seq(SeqKind::Vec, Box::new(a)),
                    _ => Ty::Tuple(vec![a, Ty::Prim(self.prim(false))]),
                }
            } else if self.headers[cur].params.iter().any(|p| p.bitstore || p.bitorder) && self.t.chance(110) {
                self.labels.insert("bitvec_over_parameter");
                let sp: Vec<usize> = self.headers[cur].params.iter().enumerate().filter(|(_, p)| p.bitstore).map(|(i, _)| i).collect();
                let op: Vec<usize> = self.headers[cur].params.iter().enumerate().filter(|(_, p)| p.bitorder).map(|(i, _)| i).collect();
                let s = if !sp.is_empty() && (op.is_empty() || self.t.chance(200)) {
                    Ty::Param(sp[self.t.choose(sp.len())])
                } else {
                    Ty::Prim(self.from_pool(&[Prim::U8, Prim::U16, Prim::U32, Prim::U64]))
                };
                let o = if !op.is_empty() && (!matches!(s, Ty::Param(_)) || self.t.chance(200)) {
                    Ty::Param(op[self.t.choose(op.len())])
                } else {
                    Ty::BitOrder(self.t.flag())
                };
                let b = Ty::BitVecP(Box::new(s), Box::new(o));
                match self.t.weighted(&[4, 1, 1, 1]) {
                    0 => b,
                    1 => Ty::Seq(SeqKind::Vec, Box::new(b)),
                    2 => Ty::Tuple(vec![b, Ty::Prim(self.prim(false))]),
                    _ => Ty::Opt(Box::new(b)),
                }
            } else if self.o.phantom && !self.headers[cur].params.is_empty() && self.t.chance(30) {
                self.labels.insert("phantom_field");
                let ps = &self.headers[cur].params;
                let i = self.t.choose(ps.len());
                Ty::Phantom(Box::new(Ty::Param(i)))
            } else if self.o.compact && self.t.chance(30) {
                self.labels.insert("compact_attr");
                compact_attr = true;
                let cps = self.compact_params(cur);
                if !cps.is_empty() && self.t.chance(170) {
                    self.labels.insert("compact_attr_on_parameter");
                    Ty::Param(cps[self.t.choose(cps.len())])
                } else if !self.wrappers.is_empty() && self.t.chance(60) {
                    self.labels.insert("compact_wrapper");
                    let w = self.wrappers[self.t.choose(self.wrappers.len())];
                    Ty::Def(w, vec![])
                } else if self.o.compact_unit && self.t.chance(30) {
                    self.labels.insert("compact_unit");
                    Ty::Tuple(vec![])
                } else {
                    Ty::Prim(self.uint())
                }
            } else {
                self.ty(c)
            };
            let name = if kind == 1 {
                let mut nm = FIELD_NAMES[self.t.choose(FIELD_NAMES.len())].to_string();
                while used.contains(&nm) {
                    nm.push('_');
                    nm.push((b'a' + (used.len() % 26) as u8) as char);
                }
                used.insert(nm.clone());
                Some(nm)
            } else {
                None
            };
            let docs = if self.t.chance(20) { self.docs() } else { vec![] };
            out.push(FieldDef {
                name,
                ty,
                compact_attr,
                docs,
            });
        }
        if kind == 1 {
            Fields::Named(out)
        } else {
            Fields::Unnamed(out)
        }
    }

    fn body(&mut self, cur: usize) -> Body {
        if self.t.weighted(&[3, 2]) == 0 {
            Body::Struct(self.fields(cur, 5))
        } else {
            let n = self.t.weighted(&[1, 3, 4, 3, 2, 1, 1]);
            if n == 0 {
                self.labels.insert("empty_enum");
            }
            let mut used = BTreeSet::new();
            let mut used_idx = BTreeSet::new();
            let mut vs = vec![];
            let explicit = self.t.chance(100);
            if explicit {
                self.labels.insert("explicit_variant_indices");
            }
            for k in 0..n {
                let mut nm = VARIANT_NAMES[self.t.choose(VARIANT_NAMES.len())].to_string();
                while used.contains(&nm) {
                    nm.push((b'a' + (used.len() % 26) as u8) as char);
                }
                used.insert(nm.clone());
                let mut idx = if explicit { self.t.byte() } else { k as u8 };
                while used_idx.contains(&idx) {
                    idx = idx.wrapping_add(1);
                }
                used_idx.insert(idx);
                let fields = self.fields(cur, 3);
                let docs = self.docs();
                vs.push(VariantDef {
                    name: nm,
                    index: idx,
                    fields,
                    docs,
                });
            }
            Body::Enum(vs)
        }
    }
}

/// one small mutation of a definition body: the result has (almost always) a different SCALE shape
fn mutate_body(t: &mut Tape, b: &Body, prims: &[Vec<ParamDecl>]) -> Body {
    fn mutate_ty(t: &mut Tape, ty: &mut Ty, prims: &[Vec<ParamDecl>]) -> bool {
        // try to mutate this node, else descend
        match ty {
            Ty::Prim(p) => {
                let other: Vec<Prim> = Prim::RUST.iter().copied().filter(|q| q != p && *q != Prim::Char).collect();
                                *p = other[t.choose(other.len())];
                true
            }
            Ty::Tuple(v) => {
                if t.flag() && !v.is_empty() {
                    v.pop();
                } else {
                    v.push(Ty::Prim(Prim::U8));
                }
                true
            }
            Ty::Array(n, _) => {
                *n += 1;
                true
            }
            Ty::BitVec(s, m) => {
                if t.flag() {
                    *m = !*m;
                } else {
                    *s = if *s == Prim::U8 { Prim::U16 } else { Prim::U8 };
                }
                true
            }
            Ty::Compact(inner) => {
                let i = (**inner).clone();
                *ty = i;
                true
            }
            Ty::Opt(inner) => {
                let i = (**inner).clone();
                *ty = Ty::Res(Box::new(i.clone()), Box::new(i));
                true
            }
            Ty::Range(inner) | Ty::RangeIncl(inner) => {
                if t.chance(60) {
                    let i = (**inner).clone();
                    *ty = Ty::Opt(Box::new(i));
                    true
                } else {
                    mutate_ty(t, inner, prims)
                }
            }
            // keep the heap indirection (the element may be what makes a recursive type finite)
            Ty::Seq(_, inner) | Ty::Ptr(_, inner) | Ty::Set(inner) | Ty::Heap(inner) => {
                if t.chance(60) && !matches!(**inner, Ty::StrSlice | Ty::Seq(SeqKind::Slice, _)) {
                    let i = (**inner).clone();
                    **inner = Ty::Opt(Box::new(i));
                    true
                } else {
                    mutate_ty(t, inner, prims)
                }
            }
            Ty::Cow(inner) => mutate_ty(t, inner, prims),
            Ty::Res(a, _) | Ty::Map(a, _) => mutate_ty(t, a, prims),
            Ty::Def(d, args) => {
                // only arguments of unconstrained parameters can be changed freely
                let free: Vec<usize> = (0..args.len())
                    .filter(|i| {
                        let p = &prims[*d][*i];
                        !p.config && !p.compactable && !p.bitstore && !p.bitorder
                    })
                    .collect();
                if free.is_empty() {
                    false
                } else {
                    let i = free[t.choose(free.len())];
                    mutate_ty(t, &mut args[i], prims)
                }
            }
            _ => false,
        }
    }
    fn mutate_fields(t: &mut Tape, f: &mut Fields, prims: &[Vec<ParamDecl>]) -> bool {
        let Some(list) = f.list_mut() else {
            *f = Fields::Unnamed(vec![FieldDef { name: None, ty: Ty::Prim(Prim::U8), compact_attr: false, docs: vec![] }]);
            return true;
        };
        if list.is_empty() {
            return false;
        }
        let i = t.choose(list.len());
        if list[i].compact_attr {
            // `#[codec(compact)]` needs a HasCompact type: another unsigned integer, or drop the attribute
            if let Ty::Prim(p) = &mut list[i].ty {
                if t.flag() {
                    *p = if *p == Prim::U32 { Prim::U64 } else { Prim::U32 };
                    return true;
                }
            }
            list[i].compact_attr = false;
            return true;
        }
        match t.weighted(&[6, 1, 1, 1, 1]) {
            0 => {
                if mutate_ty(t, &mut list[i].ty, prims) {
                    return true;
                }
                list[i].ty = Ty::Tuple(vec![list[i].ty.clone()]);
                true
            }
            1 => {
                if let Some(n) = list[i].name.clone() {
                    let mut name = format!("{n}_v2");
                    while list.iter().any(|f| f.name.as_deref() == Some(name.as_str())) {
                        name.push('x');
                    }
                    list[i].name = Some(name);
                    true
                } else {
                    list.push(FieldDef { name: None, ty: Ty::Prim(Prim::Bool), compact_attr: false, docs: vec![] });
                    true
                }
            }
            2 => {
                if list.len() >= 2 {
                    list.swap(0, 1);
                    true
                } else {
                    false
                }
            }
            3 => {
                list.remove(i);
                true
            }
            _ => {
                // compact attribute on / off for unsigned integer fields
                if matches!(list[i].ty, Ty::Prim(p) if p.is_uint()) {
                    list[i].compact_attr = !list[i].compact_attr;
                    true
                } else {
                    false
                }
            }
        }
    }
    let mut out = b.clone();
    for _ in 0..4 {
        let done = match &mut out {
            Body::Struct(f) => mutate_fields(t, f, prims),
            Body::Enum(vs) => {
                if vs.is_empty() {
                    vs.push(VariantDef { name: "Added".into(), index: 0, fields: Fields::Unit, docs: vec![] });
                    true
                } else {
                    let i = t.choose(vs.len());
                    match t.weighted(&[4, 2, 1, 1, 1]) {
                        0 => mutate_fields(t, &mut vs[i].fields, prims),
                        1 => {
                            // only the index differs
                            let used: Vec<u8> = vs.iter().map(|v| v.index).collect();
                            let mut n = vs[i].index.wrapping_add(1 + t.choose(100) as u8);
                            while used.contains(&n) {
                                n = n.wrapping_add(1);
                            }
                            vs[i].index = n;
                            true
                        }
                        2 => {
                            let mut name = format!("{}V2", vs[i].name);
                            while vs.iter().any(|v| v.name == name) {
                                name.push('X');
                            }
                            vs[i].name = name;
                            true
                        }
                        3 => {
                            let mut n = 200u8;
                            while vs.iter().any(|v| v.index == n) {
                                n = n.wrapping_add(1);
                            }
                            let mut name = "AddedVariant".to_string();
                            while vs.iter().any(|v| v.name == name) {
                                name.push('X');
                            }
                            vs.push(VariantDef { name, index: n, fields: Fields::Unit, docs: vec![] });
                            true
                        }
                        _ => {
                            if vs.len() >= 2 {
                                vs.remove(i);
                                true
                            } else {
                                false
                            }
                        }
                    }
                }
            }
        };
        if done {
            break;
        }
    }
    out
}

pub fn gen_program(t: &mut Tape, o: &GenOpts) -> Generated {
    // strata switches: one leading byte each (0 = off)
    let sw_assoc = o.assoc && t.chance(60);
    let sw_two = o.two_versions && t.chance(50);
    let sw_look = o.lookalike && t.chance(40);
    let sw_digit = o.digit_names && t.chance(60);

    // primitive pools
    let mut prims: Vec<Prim> = Prim::RUST
        .iter()
        .copied()
        .filter(|p| o.chars || *p != Prim::Char)
        .collect();
    if o.manual_prims && t.chance(60) {
        prims.push(Prim::U256);
        prims.push(Prim::I256);
    }
    // Fisher-Yates driven by the tape
    for i in (1..prims.len()).rev() {
        let j = t.choose(i + 1);
        prims.swap(i, j);
    }
    let n_arg = 3 + t.choose(3);
    let arg_prims: Vec<Prim> = prims
        .iter()
        .copied()
        .filter(|p| !matches!(p, Prim::U256 | Prim::I256))
        .take(n_arg)
        .collect();
    let body_prims: Vec<Prim> = prims.iter().copied().filter(|p| !arg_prims.contains(p)).collect();

    let mut g = G {
        t,
        o,
        headers: vec![],
        body_prims,
        arg_prims: arg_prims.clone(),
        wrappers: vec![],
        labels: BTreeSet::new(),
        bodies: vec![],
        config_defs: vec![],
    };

    // module tree
    let krate = CRATES[g.t.choose(CRATES.len())].to_string();
    let n_mod = 1 + g.t.choose(4);
    let mut mods: Vec<Vec<String>> = vec![vec![krate.clone()]];
    for i in 1..n_mod {
        let parent = g.t.choose(i);
        let mut p = mods[parent].clone();
        let mut nm = MODS[g.t.choose(MODS.len())].to_string();
        while mods.iter().any(|m| m.len() == p.len() + 1 && m[..p.len()] == p[..] && m[p.len()] == nm) {
            nm.push('x');
        }
        p.push(nm);
        mods.push(p);
    }
    if mods.iter().any(|m| m.len() >= 3) {
        g.labels.insert("nested_modules");
    }

    // headers
    let mut used_paths: BTreeSet<Vec<String>> = BTreeSet::new();
    if sw_assoc {
        g.labels.insert("assoc_stratum");
        let k = 2 + g.t.choose(2);
        for i in 0..k {
            let mut p = mods[0].clone();
            p.push(format!("Cfg{}", (b'A' + i as u8) as char));
            used_paths.insert(p.clone());
            g.config_defs.push(g.headers.len());
            g.headers.push(Header {
                path: p,
                params: vec![],
                is_config: true,
                clone_of: None,
            });
        }
    }
    let n_defs = 1 + g.t.choose(o.max_defs);
    for _ in 0..n_defs {
        let m = g.t.choose(mods.len());
        let first_user = g.config_defs.len();
        let reuse = sw_two && g.headers.len() > first_user && g.t.chance(70);
        let mut clone_of = None;
        let path = if reuse {
            g.labels.insert("two_versions");
            let k = first_user + g.t.choose(g.headers.len() - first_user);
            if o.near_miss && g.t.chance(150) {
                g.labels.insert("near_miss_version");
                clone_of = Some(k);
            }
            g.headers[k].path.clone()
        } else {
            let mut nm = if sw_look && g.t.chance(90) {
                g.labels.insert("lookalike_name");
                LOOKALIKE_NAMES[g.t.choose(LOOKALIKE_NAMES.len())].to_string()
            } else if sw_digit && g.t.chance(80) {
                g.labels.insert("digit_name");
                DIGIT_NAMES[g.t.choose(DIGIT_NAMES.len())].to_string()
            } else {
                TYPE_NAMES[g.t.choose(TYPE_NAMES.len())].to_string()
            };
            let mut p = mods[m].clone();
            p.push(nm.clone());
            while used_paths.contains(&p) {
                nm.push('X');
                p = mods[m].clone();
                p.push(nm.clone());
            }
            used_paths.insert(p.clone());
            p
        };
        if let Some(k) = clone_of {
            let params = g.headers[k].params.clone();
            g.headers.push(Header {
                path,
                params,
                is_config: false,
                clone_of,
            });
            continue;
        }
        let np = g.t.weighted(&[5, 4, 2, 1][..(o.max_params + 1).min(4)]);
        let mut params = vec![];
        for i in 0..np {
            let config = sw_assoc && g.t.chance(60);
            let skipped = o.skipped && g.t.chance(if config { 128 } else { 40 });
            if skipped {
                g.labels.insert("skipped_param");
            }
            // `T: HasCompact` parameters (e.g. `Balance`): used as `#[codec(compact)] f: T` / `Compact<T>`
            let compactable = !config && !skipped && o.compact && g.t.chance(50);
            if compactable {
                g.labels.insert("compactable_param");
            }
            let bitstore = !config && !skipped && !compactable && o.bits && o.bit_params && g.t.chance(25);
            let bitorder = !config && !skipped && !compactable && !bitstore && o.bits && o.bit_params && g.t.chance(20);
            if bitstore || bitorder {
                g.labels.insert("bit_store_or_order_param");
            }
            params.push(ParamDecl {
                name: PARAM_NAMES[i].to_string(),
                skipped,
                config,
                compactable,
                bitstore,
                bitorder,
            });
        }
        g.headers.push(Header {
            path,
            params,
            is_config: false,
            clone_of: None,
        });
    }

    // bodies
    let mut defs: Vec<Def> = vec![];
    for i in 0..g.headers.len() {
        if g.headers[i].is_config {
            // closed inner type for `<Cfg as Config>::Inner`
            let inner = match g.t.weighted(&[3, 1, 1]) {
                0 => Ty::Prim(g.prim(false)),
                1 => Ty::Seq(SeqKind::Vec, Box::new(Ty::Prim(g.prim(false)))),
                _ => Ty::Tuple(vec![Ty::Prim(g.prim(false)), Ty::Prim(g.prim(false))]),
            };
            defs.push(Def {
                path: g.headers[i].path.clone(),
                params: vec![],
                docs: vec![],
                body: Body::Struct(Fields::Unit),
                config_inner: Some(inner),
            });
            g.bodies.push(Body::Struct(Fields::Unit));
            continue;
        }
        if let Some(k) = g.headers[i].clone_of {
            let decls: Vec<Vec<ParamDecl>> = g.headers.iter().map(|h| h.params.clone()).collect();
            let body = mutate_body(g.t, &g.bodies[k], &decls);
            defs.push(Def {
                path: g.headers[i].path.clone(),
                params: g.headers[i].params.clone(),
                docs: defs[k].docs.clone(),
                body: body.clone(),
                config_inner: None,
            });
            g.bodies.push(body);
            continue;
        }
        // occasionally force a single-uint wrapper struct (CompactAs candidates)
        let body = if g.headers[i].params.is_empty() && g.t.chance(40) {
            g.labels.insert("uint_wrapper_struct");
            let u = g.uint();
            let f = FieldDef {
                name: if g.t.flag() { Some("inner".into()) } else { None },
                ty: Ty::Prim(u),
                compact_attr: false,
                docs: vec![],
            };
            g.wrappers.push(i);
            Body::Struct(if f.name.is_some() {
                Fields::Named(vec![f])
            } else {
                Fields::Unnamed(vec![f])
            })
        } else {
            g.body(i)
        };
        let docs = g.docs();
        defs.push(Def {
            path: g.headers[i].path.clone(),
            params: g.headers[i].params.clone(),
            docs,
            body: body.clone(),
            config_inner: None,
        });
        g.bodies.push(body);
    }

    // roots: every non-config definition, generic ones with 1..3 instantiations
    let mut roots = vec![];
    for i in 0..defs.len() {
        if g.headers[i].is_config {
            continue;
        }
        let n_inst = if defs[i].params.is_empty() {
            1
        } else {
            1 + g.t.weighted(&[2, 4, 2])
        };
        for _ in 0..n_inst {
            let mut args = vec![];
            for p in &defs[i].params {
                if p.config {
                    let k = g.config_defs[g.t.choose(g.config_defs.len())];
                    args.push(Ty::Def(k, vec![]));
                } else if p.bitstore || p.bitorder {
                    let c = Ctx {
                        cur: i,
                        heap: false,
                        depth: 1,
                        in_args: true,
                        closed: true,
                        root_args: true,
                    };
                    let a = g.bit_arg(p.bitstore, c);
                    args.push(a);
                } else if p.compactable {
                    let c = Ctx {
                        cur: i,
                        heap: false,
                        depth: 1,
                        in_args: true,
                        closed: true,
                        root_args: true,
                    };
                    let mut a = g.compactable_arg(c);
                    let mut k = 0;
                    while args.contains(&a) && k < 6 {
                        a = g.compactable_arg(c);
                        k += 1;
                    }
                    args.push(a);
                } else {
                    let a = match g.t.weighted(&[6, 1, 1, 2]) {
                        0 => Ty::Prim(g.prim(true)),
                        1 => Ty::Seq(SeqKind::Vec, Box::new(Ty::Prim(g.prim(true)))),
                        2 => Ty::Tuple(vec![Ty::Prim(g.prim(true)), Ty::Prim(g.prim(true))]),
                        _ => {
                            // a closed instantiation of a smaller non-generic/generic def
                            let cands: Vec<usize> =
                                (0..i).filter(|k| !g.headers[*k].is_config).collect();
                            if cands.is_empty() {
                                Ty::Prim(g.prim(true))
                            } else {
                                let d = cands[g.t.choose(cands.len())];
                                let c = Ctx {
                                    cur: d,
                                    heap: false,
                                    depth: 1,
                                    in_args: true,
                                    closed: true,
                                    root_args: true,
                                };
                                let a = g.closed_args_small(d, c);
                                g.labels.insert("instantiation_with_def_argument");
                                Ty::Def(d, a)
                            }
                        }
                    };
                    let mut a = a;
                    let mut k = 0;
                    while args.contains(&a) && k < 4 {
                        a = Ty::Seq(SeqKind::Vec, Box::new(a));
                        k += 1;
                    }
                    args.push(a);
                }
            }
            let r = Ty::Def(i, args);
            if !roots.contains(&r) {
                roots.push(r);
            }
        }
    }
    // extra roots
    let extra = g.t.weighted(&[4, 2, 1, 1]);
    for _ in 0..extra {
        if roots.is_empty() {
            break;
        }
        let base = roots[g.t.choose(roots.len())].clone();
        let r = match g.t.weighted(&[2, 2, 1, 1]) {
            0 => Ty::Seq(SeqKind::Vec, Box::new(base)),
            1 => Ty::Tuple(vec![base, Ty::Prim(g.prim(false))]),
            2 => Ty::Opt(Box::new(base)),
            _ => Ty::Array(2, Box::new(base)),
        };
        g.labels.insert("extra_root");
        roots.push(r);
    }

    // A second version of a whole group of definitions (two versions of one crate in the same
    // metadata): every definition reachable from a chosen one is copied to the same path with the
    // references inside the group redirected to the copies, and ONE copy gets one mutation. The other
    // copies then differ from their originals only through the types they refer to.
    let group_chance = if o.force_group_version {
        256
    } else if g.labels.contains("recursion") {
        110
    } else {
        50
    };
    if o.near_miss && o.two_versions && !roots.is_empty() && g.t.chance(group_chance) {
        let cands: Vec<usize> = (0..defs.len())
            .filter(|i| !g.headers[*i].is_config && defs[*i].all_fields().iter().any(|f| f.ty.any(&mut |t| matches!(t, Ty::Def(..)))))
            .collect();
        if !cands.is_empty() {
            let k = cands[g.t.choose(cands.len())];
            // breadth-first closure over references, at most 5 definitions
            let mut group = vec![k];
            let mut at = 0;
            while at < group.len() && group.len() < 5 {
                let d = group[at];
                at += 1;
                let mut refs = vec![];
                for f in defs[d].all_fields() {
                    f.ty.any(&mut |t| {
                        if let Ty::Def(x, _) = t {
                            refs.push(*x);
                        }
                        false
                    });
                }
                for x in refs {
                    if !group.contains(&x) && defs[x].config_inner.is_none() && group.len() < 5 {
                        group.push(x);
                    }
                }
            }
            let base = defs.len();
            let map: BTreeMap<usize, usize> = group.iter().enumerate().map(|(j, d)| (*d, base + j)).collect();
            fn remap(t: &Ty, map: &BTreeMap<usize, usize>) -> Ty {
                let mut out = t.clone();
                fn go(t: &mut Ty, map: &BTreeMap<usize, usize>) {
                    match t {
                        Ty::Def(d, args) => {
                            if let Some(n) = map.get(d) {
                                *d = *n;
                            }
                            args.iter_mut().for_each(|a| go(a, map));
                        }
                        Ty::Tuple(a) => a.iter_mut().for_each(|a| go(a, map)),
                        Ty::Array(_, x) | Ty::Seq(_, x) | Ty::Opt(x) | Ty::Ptr(_, x) | Ty::Cow(x) | Ty::Set(x) | Ty::Heap(x)
                        | Ty::Range(x) | Ty::RangeIncl(x) | Ty::Compact(x) | Ty::Phantom(x) => go(x, map),
                        Ty::Res(a, b) | Ty::Map(a, b) | Ty::BitVecP(a, b) => {
                            go(a, map);
                            go(b, map);
                        }
                        Ty::Param(_) | Ty::Assoc(_) | Ty::Prim(_) | Ty::StrSlice | Ty::NonZero(_) | Ty::Duration | Ty::BitVec(..) | Ty::BitOrder(_) => {}
                    }
                }
                go(&mut out, map);
                out
            }
            let remap_fields = |f: &Fields, map: &BTreeMap<usize, usize>| -> Fields {
                let conv = |l: &Vec<FieldDef>| -> Vec<FieldDef> {
                    l.iter().map(|fd| FieldDef { ty: remap(&fd.ty, map), ..fd.clone() }).collect()
                };
                match f {
                    Fields::Unit => Fields::Unit,
                    Fields::Named(l) => Fields::Named(conv(l)),
                    Fields::Unnamed(l) => Fields::Unnamed(conv(l)),
                }
            };
            for d in &group {
                let src = defs[*d].clone();
                let body = match &src.body {
                    Body::Struct(f) => Body::Struct(remap_fields(f, &map)),
                    Body::Enum(vs) => Body::Enum(
                        vs.iter().map(|v| VariantDef { fields: remap_fields(&v.fields, &map), ..v.clone() }).collect(),
                    ),
                };
                defs.push(Def { body, ..src });
            }
            // one mutation in one copy (mostly the one the group was grown from). A single-unsigned-field wrapper
            // that other definitions use under `#[codec(compact)]` must stay one (HasCompact), so it is never the victim.
            let eligible: Vec<usize> = (0..group.len()).filter(|j| !g.wrappers.contains(&group[*j])).collect();
            if eligible.is_empty() {
                defs.truncate(base);
                g.labels.insert("group_version_abandoned_only_wrappers");
            } else {
            let victim = if g.t.chance(160) && eligible.contains(&0) { 0 } else { eligible[g.t.choose(eligible.len())] };
            let decls: Vec<Vec<ParamDecl>> = defs.iter().map(|d| d.params.clone()).collect();
            // A second kind of version: a field that IS a type parameter in the original is the concrete type the
            // original is instantiated with in the copy ("the new release fixed the balance type"), and the copy is
            // instantiated with other arguments. The two entries then share the field's type id, generic on one side only.
            let vdef = group[victim];
            let concrete: Option<(usize, Ty)> = roots.iter().find_map(|r| match r {
                Ty::Def(d, args) if *d == vdef => defs[vdef].params.iter().enumerate().find_map(|(i, p)| {
                    let plain = !p.skipped && !p.config && !p.compactable && !p.bitstore && !p.bitorder;
                    let direct = defs[vdef].all_fields().iter().any(|f| f.ty == Ty::Param(i) && !f.compact_attr);
                    (plain && direct).then(|| (i, args[i].clone()))
                }),
                _ => None,
            });
            let mut shifted: Option<usize> = None;
            match concrete {
                Some((i, arg)) if g.t.chance(90) => {
                    g.labels.insert("version_with_parameter_made_concrete");
                    let conv = |l: &mut Vec<FieldDef>| {
                        for fd in l.iter_mut() {
                            if fd.ty == Ty::Param(i) && !fd.compact_attr {
                                fd.ty = arg.clone();
                                break;
                            }
                        }
                    };
                    match &mut defs[base + victim].body {
                        Body::Struct(Fields::Named(l)) | Body::Struct(Fields::Unnamed(l)) => conv(l),
                        Body::Struct(Fields::Unit) => {}
                        Body::Enum(vs) => {
                            for v in vs.iter_mut() {
                                if let Fields::Named(l) | Fields::Unnamed(l) = &mut v.fields {
                                    if l.iter().any(|fd| fd.ty == Ty::Param(i) && !fd.compact_attr) {
                                        conv(l);
                                        break;
                                    }
                                }
                            }
                        }
                    }
                    shifted = Some(i);
                }
                _ => {
                    let mutated = mutate_body(g.t, &defs[base + victim].body, &decls);
                    defs[base + victim].body = mutated;
                }
            }
            // the copies are rooted like their originals (the copy with a parameter made concrete with that argument
            // wrapped in a Vec, so that the concrete field type does not coincide with an argument of the copy)
            let vnew = base + victim;
            let more: Vec<Ty> = roots
                .iter()
                .filter(|r| matches!(r, Ty::Def(d, _) if map.contains_key(d)))
                .map(|r| remap(r, &map))
                .map(|r| match (r, shifted) {
                    (Ty::Def(d, mut args), Some(i)) if d == vnew => {
                        let a = args[i].clone();
                        args[i] = Ty::Seq(SeqKind::Vec, Box::new(a));
                        Ty::Def(d, args)
                    }
                    (r, _) => r,
                })
                .collect();
            for r in more {
                if !roots.contains(&r) {
                    roots.push(r);
                }
            }
            g.labels.insert("two_versions");
            g.labels.insert("near_miss_group_version");
            if group.len() >= 2 {
                g.labels.insert("near_miss_group_of_2_or_more");
            }
            }
        }
    }

    let mut name_style = if o.qualified_names && g.t.chance(60) {
        g.labels.insert("qualified_type_names");
        1
    } else {
        0
    };
    if o.const_generic_arrays && g.t.chance(60) {
        g.labels.insert("const_generic_array_lengths");
        name_style |= 2;
    }
    let labels = g.labels;
    Generated {
        prog: Program { defs, roots, name_style },
        labels,
        arg_prims,
    }
}
