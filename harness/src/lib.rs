pub mod engine;
pub mod tape;
pub mod props;
