//! Registry-only coincidence-freeness certificate for registries without source (DESIGN.md 3.4),
//! used to decide for which ids of real chain metadata the coincidence-sensitive clauses of C01
//! can be evaluated.

use scale_info::{form::PortableForm, PortableRegistry, Type, TypeDef};
use std::collections::{BTreeMap, BTreeSet};

pub struct Certificate {
    /// entry id -> certified?
    pub certified: BTreeMap<u32, bool>,
    /// path -> member ids
    pub families: BTreeMap<Vec<String>, Vec<u32>>,
}

fn children(reg: &PortableRegistry, id: u32) -> Vec<u32> {
    let Some(t) = reg.resolve(id) else { return vec![] };
    let mut out: Vec<u32> = t.type_params.iter().filter_map(|p| p.ty.map(|t| t.id)).collect();
    match &t.type_def {
        TypeDef::Composite(c) => out.extend(c.fields.iter().map(|f| f.ty.id)),
        TypeDef::Variant(v) => out.extend(v.variants.iter().flat_map(|v| v.fields.iter().map(|f| f.ty.id))),
        TypeDef::Sequence(s) => out.push(s.type_param.id),
        TypeDef::Array(a) => out.push(a.type_param.id),
        TypeDef::Tuple(tu) => out.extend(tu.fields.iter().map(|f| f.id)),
        TypeDef::Compact(c) => out.push(c.type_param.id),
        TypeDef::BitSequence(b) => {
            out.push(b.bit_store_type.id);
            out.push(b.bit_order_type.id);
        }
        TypeDef::Primitive(_) => {}
    }
    out
}

/// ids the generator looks at below `id` when resolving a field (unnamed structure and type
/// parameters of named types, not the fields of named types)
fn resolver_subtree(reg: &PortableRegistry, id: u32, out: &mut BTreeSet<u32>) {
    if !out.insert(id) {
        return;
    }
    let Some(t) = reg.resolve(id) else { return };
    for p in &t.type_params {
        if let Some(p) = p.ty {
            resolver_subtree(reg, p.id, out);
        }
    }
    match &t.type_def {
        TypeDef::Sequence(s) => resolver_subtree(reg, s.type_param.id, out),
        TypeDef::Array(a) => resolver_subtree(reg, a.type_param.id, out),
        TypeDef::Tuple(tu) => tu.fields.iter().for_each(|f| resolver_subtree(reg, f.id, out)),
        TypeDef::Compact(c) => resolver_subtree(reg, c.type_param.id, out),
        TypeDef::BitSequence(b) => {
            resolver_subtree(reg, b.bit_store_type.id, out);
            resolver_subtree(reg, b.bit_order_type.id, out);
        }
        _ => {}
    }
}

fn mentions_param(reg: &PortableRegistry, id: u32, params: &BTreeSet<u32>) -> bool {
    let mut s = BTreeSet::new();
    resolver_subtree(reg, id, &mut s);
    s.iter().any(|i| params.contains(i))
}

fn generic_args(p: &syn::Path) -> Vec<syn::Type> {
    match p.segments.last().map(|s| &s.arguments) {
        Some(syn::PathArguments::AngleBracketed(a)) => a
            .args
            .iter()
            .filter_map(|g| match g {
                syn::GenericArgument::Type(t) => Some(t.clone()),
                _ => None,
            })
            .collect(),
        _ => vec![],
    }
}

/// clause (iii): the recorded type name aligns node by node with the registry type
fn align(
    reg: &PortableRegistry,
    expr: &syn::Type,
    id: u32,
    pnames: &BTreeMap<String, u32>,
    pids: &BTreeSet<u32>,
) -> bool {
    use syn::Type as T;
    let Some(r) = reg.resolve(id) else { return false };
    match expr {
        T::Paren(p) => align(reg, &p.elem, id, pnames, pids),
        T::Group(p) => align(reg, &p.elem, id, pnames, pids),
        T::Reference(rf) => align(reg, &rf.elem, id, pnames, pids),
        T::Tuple(tt) => match &r.type_def {
            TypeDef::Tuple(rt) if rt.fields.len() == tt.elems.len() && !pids.contains(&id) => tt
                .elems
                .iter()
                .zip(rt.fields.iter())
                .all(|(e, f)| align(reg, e, f.id, pnames, pids)),
            _ => !mentions_param(reg, id, pids),
        },
        T::Array(a) => match &r.type_def {
            TypeDef::Array(ra) if !pids.contains(&id) => align(reg, &a.elem, ra.type_param.id, pnames, pids),
            _ => !mentions_param(reg, id, pids),
        },
        T::Slice(s) => match &r.type_def {
            TypeDef::Sequence(rs) if !pids.contains(&id) => align(reg, &s.elem, rs.type_param.id, pnames, pids),
            _ => !mentions_param(reg, id, pids),
        },
        T::Path(tp) => {
            if tp.qself.is_some() {
                return !mentions_param(reg, id, pids);
            }
            let segs: Vec<String> = tp.path.segments.iter().map(|s| s.ident.to_string()).collect();
            let args = generic_args(&tp.path);
            if segs.len() == 1 && args.is_empty() {
                if let Some(pid) = pnames.get(&segs[0]) {
                    // a parameter occurrence
                    return *pid == id;
                }
            }
            if segs.len() >= 2 && pnames.contains_key(&segs[0]) {
                // `T::Assoc`
                return !mentions_param(reg, id, pids);
            }
            let last = segs.last().cloned().unwrap_or_default();
            match (&r.type_def, last.as_str()) {
                (_, "Box" | "Rc" | "Arc") if args.len() == 1 => align(reg, &args[0], id, pnames, pids),
                (TypeDef::Sequence(s), "Vec" | "VecDeque") if args.len() == 1 && !pids.contains(&id) => {
                    align(reg, &args[0], s.type_param.id, pnames, pids)
                }
                (TypeDef::Compact(c), "Compact") if args.len() == 1 && !pids.contains(&id) => {
                    align(reg, &args[0], c.type_param.id, pnames, pids)
                }
                (TypeDef::Composite(_) | TypeDef::Variant(_), _)
                    if r.path.segments.last() == Some(&last)
                        && r.type_params.len() == args.len()
                        && !pids.contains(&id) =>
                {
                    r.type_params.iter().zip(args.iter()).all(|(p, a)| match p.ty {
                        Some(t) => align(reg, a, t.id, pnames, pids),
                        None => true,
                    })
                }
                _ => !mentions_param(reg, id, pids),
            }
        }
        _ => !mentions_param(reg, id, pids),
    }
}

fn certify_entry(reg: &PortableRegistry, ty: &Type<PortableForm>) -> bool {
    let live: Vec<(String, u32)> = ty
        .type_params
        .iter()
        .filter_map(|p| p.ty.map(|t| (p.name.clone(), t.id)))
        .collect();
    let pids: BTreeSet<u32> = live.iter().map(|p| p.1).collect();
    // CF1
    if pids.len() != live.len() {
        return false;
    }
    let pnames: BTreeMap<String, u32> = live.into_iter().collect();
    let fields: Vec<&scale_info::Field<PortableForm>> = match &ty.type_def {
        TypeDef::Composite(c) => c.fields.iter().collect(),
        TypeDef::Variant(v) => v.variants.iter().flat_map(|v| v.fields.iter()).collect(),
        _ => vec![],
    };
    for f in fields {
        // (i)
        if let Some(n) = &f.type_name {
            if let Some(pid) = pnames.get(n) {
                if *pid == f.ty.id {
                    continue;
                }
            }
        }
        // (ii)
        if !mentions_param(reg, f.ty.id, &pids) {
            continue;
        }
        // (iii)
        let Some(n) = &f.type_name else { return false };
        let Ok(expr) = syn::parse_str::<syn::Type>(n) else { return false };
        if !align(reg, &expr, f.ty.id, &pnames, &pids) {
            return false;
        }
    }
    true
}

pub fn certify(reg: &PortableRegistry) -> Certificate {
    let mut families: BTreeMap<Vec<String>, Vec<u32>> = BTreeMap::new();
    let mut certified = BTreeMap::new();
    for t in &reg.types {
        if t.ty.path.segments.len() >= 2 {
            families.entry(t.ty.path.segments.clone()).or_default().push(t.id);
            certified.insert(t.id, certify_entry(reg, &t.ty));
        }
    }
    Certificate { certified, families }
}

impl Certificate {
    /// can the coincidence-sensitive clauses be evaluated for `id`? Every non-singleton path family
    /// reachable from it must consist of certified entries.
    pub fn admits(&self, reg: &PortableRegistry, id: u32) -> bool {
        let mut seen = BTreeSet::new();
        let mut stack = vec![id];
        while let Some(i) = stack.pop() {
            if !seen.insert(i) {
                continue;
            }
            if let Some(t) = reg.resolve(i) {
                if t.path.segments.len() >= 2 {
                    if let Some(members) = self.families.get(&t.path.segments) {
                        if members.len() > 1 && members.iter().any(|m| !self.certified.get(m).copied().unwrap_or(false)) {
                            return false;
                        }
                    }
                }
            }
            stack.extend(children(reg, i));
        }
        true
    }
}
