//! Entry point shared by the libFuzzer targets in /verif/fuzz: the raw input is the choice tape of
//! the named stratum; the semantic oracle of the property runs inside the target. Known findings are
//! tolerated in-target; anything else aborts the process so that libFuzzer saves the input, which the
//! driver then re-runs through the strict (non-fuzz) replay path before anything is reported.

use crate::engine::{install_panic_hook, load_findings, Input, Property, Stats};
use std::collections::BTreeSet;
use std::sync::OnceLock;

struct Ctx {
    prop: Box<dyn Property>,
    known: BTreeSet<String>,
}

static CTX: OnceLock<Ctx> = OnceLock::new();

pub fn one_input(prop: &str, stratum: &str, data: &[u8]) {
    let ctx = CTX.get_or_init(|| {
        // replace libfuzzer-sys' abort-on-panic hook: panics of the code under test are caught and judged
        // by the oracle (catch_unwind), exactly as in the proptest-driven runs
        std::env::set_var("RUST_BACKTRACE", "0");
        std::env::set_var("RUST_LIB_BACKTRACE", "0");
        install_panic_hook();
        let p = crate::props::by_id(prop).expect("property");
        let known = load_findings()
            .into_iter()
            .filter(|f| f.property == prop && f.status == "known")
            .map(|f| f.signature)
            .collect();
        Ctx { prop: p, known }
    });
    if data.len() > 1024 {
        return;
    }
    let mut stats = Stats::default();
    stats.frozen = true;
    let r = std::panic::catch_unwind(std::panic::AssertUnwindSafe(|| ctx.prop.eval(stratum, Input::Tape(data), &mut stats)));
    match r {
        Ok(Ok(())) => {}
        Ok(Err(f)) => {
            if f.infra || ctx.known.contains(&f.signature) {
                return;
            }
            eprintln!("FUZZ-FAILURE property={prop} stratum={stratum} [{}] {}", f.signature, f.msg);
            std::process::abort();
        }
        Err(_) => {
            eprintln!("FUZZ-FAILURE property={prop} stratum={stratum} harness panic");
            std::process::abort();
        }
    }
}
