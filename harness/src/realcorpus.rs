//! Generator self-check (DESIGN.md 3.2): real Rust definitions with `#[derive(TypeInfo)]`, each
//! mirrored as a model definition. `lower(model)` must equal the registry real scale-info
//! produces, for random subsets and orders of roots. A mismatch means the *generator* is wrong
//! (exit 2), never a violation.

use crate::lower::{lower, registry_json};
use crate::program::*;
use crate::tape::{mix, Tape};
use scale_info::{MetaType, PortableRegistry, Registry};

#[allow(dead_code)]
pub mod rc {
    use bitvec::{
        order::{Lsb0, Msb0},
        vec::BitVec,
    };
    use core::marker::PhantomData;
    use core::num::NonZeroU16;
    use core::ops::{Range, RangeInclusive};
    use core::time::Duration;
    use parity_scale_codec::{Compact, CompactAs, Decode, Encode};
    use scale_info::TypeInfo;
    use std::borrow::Cow;
    use std::collections::{BTreeMap, BTreeSet, BinaryHeap, VecDeque};
    use std::rc::Rc;
    use std::sync::Arc;

    /// Doc line one
    /// second "line" with {braces} and std
    #[derive(TypeInfo)]
    pub struct Plain {
        pub a: u8,
        /// field doc
        pub b: String,
        pub c: &'static str,
        pub d: bool,
        pub e: char,
        pub f: i128,
    }

    #[derive(TypeInfo)]
    pub struct Unit;

    #[derive(TypeInfo)]
    pub struct Tup(pub u16, pub (u8, bool), pub (u32,), pub [u8; 3], pub ());

    #[derive(TypeInfo)]
    pub struct Gen<T, U> {
        pub t: T,
        pub v: Vec<(T, U)>,
        pub o: Option<U>,
        pub p: PhantomData<U>,
        pub n: [T; 2],
    }

    #[derive(TypeInfo)]
    #[scale_info(skip_type_params(S))]
    pub struct Skip<T, S> {
        pub t: T,
        pub m: PhantomData<S>,
    }

    #[derive(TypeInfo)]
    pub enum En<T> {
        #[codec(index = 3)]
        A,
        B(T, u8),
        /// variant doc
        #[codec(index = 7)]
        C { x: Box<En<T>>, y: Vec<En<T>> },
    }

    #[derive(TypeInfo)]
    pub struct Rec {
        pub next: Option<Box<Rec>>,
        pub kids: Vec<Rec>,
        pub m: BTreeMap<u8, Rec>,
    }

    #[derive(TypeInfo)]
    pub struct Ptrs {
        pub a: Rc<u64>,
        pub b: Arc<Plain>,
        pub c: Box<u8>,
        pub d: VecDeque<u8>,
        pub e: Box<[u16]>,
        pub f: Cow<'static, str>,
        pub g: Cow<'static, [u8]>,
        pub h: &'static u32,
    }

    #[derive(TypeInfo, Encode, Decode, CompactAs)]
    pub struct Wrap(pub u32);

    #[derive(TypeInfo, Encode, Decode, CompactAs)]
    pub struct WrapNamed {
        pub inner: u64,
    }

    #[derive(TypeInfo)]
    pub struct Comp {
        #[codec(compact)]
        pub a: u32,
        pub b: Compact<u64>,
        #[codec(compact)]
        pub w: Wrap,
        pub v: Vec<Compact<u16>>,
        pub cw: Compact<WrapNamed>,
    }

    #[derive(TypeInfo)]
    pub struct GenComp<B: parity_scale_codec::HasCompact> {
        #[codec(compact)]
        pub b: B,
        pub c: Vec<B>,
        pub d: Compact<B>,
    }

    #[derive(TypeInfo)]
    pub enum CompEn {
        A(#[codec(compact)] u128, Compact<u8>),
        B {
            #[codec(compact)]
            x: u16,
        },
    }

    #[derive(TypeInfo)]
    pub struct Misc {
        pub r: Range<u8>,
        pub ri: RangeInclusive<u32>,
        pub nz: NonZeroU16,
        pub d: Duration,
        pub s: BTreeSet<u8>,
        pub h: BinaryHeap<u32>,
        pub res: Result<u8, String>,
        pub bits: BitVec<u8, Lsb0>,
        pub bits2: BitVec<u32, Msb0>,
    }

    #[derive(TypeInfo)]
    pub struct GenBits<S: bitvec::store::BitStore + 'static, O: bitvec::order::BitOrder + 'static> {
        pub bits: BitVec<S, O>,
        pub v: Vec<BitVec<S, Lsb0>>,
        pub w: (BitVec<u16, O>, S),
    }

    /// one level of `Identity`: which of these share a registry entry?
    #[derive(TypeInfo)]
    pub struct Ident<T> {
        pub a: Box<T>,
        pub b: Vec<Box<T>>,
        pub c: Box<String>,
        pub d: String,
        pub e: Box<Vec<u8>>,
        pub f: Vec<u8>,
        pub g: Rc<Box<u8>>,
        pub h: &'static str,
        pub i: Box<str>,
        pub j: (u8, PhantomData<u16>),
        pub k: (u8, PhantomData<u32>),
        pub l: Cow<'static, str>,
        pub m: Vec<String>,
        pub n: Vec<&'static str>,
        pub o: VecDeque<u8>,
        pub p: Option<Box<T>>,
        pub q: Option<T>,
        pub t: T,
        pub r: Arc<[u8]>,
        pub s: Box<Gen<u8, Box<u8>>>,
        pub u: Gen<u8, u8>,
    }

    #[derive(TypeInfo)]
    pub struct CompactUnit {
        #[codec(compact)]
        pub u: (),
        pub cu: Compact<()>,
    }

    pub trait Config {
        type Inner;
    }
    #[derive(TypeInfo)]
    pub struct CA;
    impl Config for CA {
        type Inner = u8;
    }
    #[derive(TypeInfo)]
    pub struct CB;
    impl Config for CB {
        type Inner = Vec<u32>;
    }

    #[derive(TypeInfo)]
    pub struct Assoc<T: Config> {
        pub f: T::Inner,
        pub g: Vec<T::Inner>,
    }

    #[derive(TypeInfo)]
    #[scale_info(skip_type_params(T))]
    pub struct AssocSkip<T: Config> {
        pub f: T::Inner,
    }

    pub mod inner {
        use super::{Gen, Unit};
        use scale_info::TypeInfo;

        #[derive(TypeInfo)]
        pub struct Plain {
            pub z: i64,
        }

        #[derive(TypeInfo)]
        pub struct Uses {
            pub a: Gen<u8, Plain>,
            pub b: Gen<Plain, Gen<u8, Unit>>,
            pub c: Vec<Gen<u8, Plain>>,
        }
    }
}

/// the same kinds of definitions written with path-qualified type names, as most of the
/// Substrate code base does (`sp_std::vec::Vec<T>`, `codec::Compact<T>`)
#[allow(dead_code)]
pub mod rcq {
    extern crate alloc;
    use parity_scale_codec as codec;
    use scale_info::TypeInfo;
    use std as sp_std;

    #[derive(TypeInfo)]
    pub struct Qual<T> {
        pub a: codec::Compact<u32>,
        pub b: alloc::boxed::Box<T>,
        pub c: sp_std::vec::Vec<(T, codec::Compact<u8>)>,
        pub d: alloc::boxed::Box<sp_std::vec::Vec<u8>>,
    }
}

/// const generic array lengths: not type parameters for scale-info, the type name is as written
#[allow(dead_code)]
pub mod rck {
    use scale_info::TypeInfo;

    #[derive(TypeInfo)]
    pub struct CBuf<T, const N: usize> {
        pub data: [T; N],
        pub tag: Option<T>,
    }
}

// ---------------------------------------------------------------------------------------------
// the mirrored model

fn p(n: &str) -> ParamDecl {
    ParamDecl {
        name: n.into(),
        skipped: false,
        config: false,
        compactable: false,
        bitstore: false,
        bitorder: false,
    }
}
fn named(name: &str, ty: Ty) -> FieldDef {
    FieldDef {
        name: Some(name.into()),
        ty,
        compact_attr: false,
        docs: vec![],
    }
}
fn unnamed(ty: Ty) -> FieldDef {
    FieldDef {
        name: None,
        ty,
        compact_attr: false,
        docs: vec![],
    }
}
fn bx(t: Ty) -> Box<Ty> {
    Box::new(t)
}
fn pr(p: Prim) -> Ty {
    Ty::Prim(p)
}

const BASE: [&str; 3] = ["vlib", "realcorpus", "rc"];

fn path(name: &str) -> Vec<String> {
    BASE.iter().map(|s| s.to_string()).chain([name.to_string()]).collect()
}
fn path_inner(name: &str) -> Vec<String> {
    BASE.iter()
        .map(|s| s.to_string())
        .chain(["inner".to_string(), name.to_string()])
        .collect()
}

// indices of the model definitions
pub const PLAIN: usize = 0;
pub const UNIT: usize = 1;
pub const TUP: usize = 2;
pub const GEN: usize = 3;
pub const SKIP: usize = 4;
pub const EN: usize = 5;
pub const REC: usize = 6;
pub const PTRS: usize = 7;
pub const WRAP: usize = 8;
pub const WRAPNAMED: usize = 9;
pub const COMP: usize = 10;
pub const COMPEN: usize = 11;
pub const MISC: usize = 12;
pub const CA: usize = 13;
pub const CB: usize = 14;
pub const ASSOC: usize = 15;
pub const ASSOCSKIP: usize = 16;
pub const IPLAIN: usize = 17;
pub const IUSES: usize = 18;
pub const GENCOMP: usize = 19;
pub const GENBITS: usize = 20;
pub const COMPACTUNIT: usize = 21;
pub const QUAL: usize = 22;
pub const IDENT: usize = 23;
pub const CBUF4: usize = 24;
pub const CBUF8: usize = 25;

pub fn model_defs() -> Vec<Def> {
    use Prim::*;
    let sdef = |path: Vec<String>, params: Vec<ParamDecl>, docs: Vec<&str>, f: Fields| Def {
        path,
        params,
        docs: docs.into_iter().map(|s| s.to_string()).collect(),
        body: Body::Struct(f),
        config_inner: None,
    };
    let mut plain_b = named("b", pr(Str));
    plain_b.docs = vec!["field doc".into()];
    let mut comp_a = named("a", pr(U32));
    comp_a.compact_attr = true;
    let mut comp_w = named("w", Ty::Def(WRAP, vec![]));
    comp_w.compact_attr = true;
    let mut ce_a0 = unnamed(pr(U128));
    ce_a0.compact_attr = true;
    let mut ce_bx = named("x", pr(U16));
    ce_bx.compact_attr = true;
    let mut ca = sdef(path("CA"), vec![], vec![], Fields::Unit);
    ca.config_inner = Some(pr(U8));
    let mut cb = sdef(path("CB"), vec![], vec![], Fields::Unit);
    cb.config_inner = Some(Ty::Seq(SeqKind::Vec, bx(pr(U32))));
    let cfgp = |skipped| ParamDecl {
        name: "T".into(),
        skipped,
        config: true,
        compactable: false,
        bitstore: false,
        bitorder: false,
    };
    vec![
        sdef(
            path("Plain"),
            vec![],
            vec!["Doc line one", "second \"line\" with {braces} and std"],
            Fields::Named(vec![
                named("a", pr(U8)),
                plain_b,
                named("c", Ty::Ptr(PtrKind::Ref, bx(Ty::StrSlice))),
                named("d", pr(Bool)),
                named("e", pr(Char)),
                named("f", pr(I128)),
            ]),
        ),
        sdef(path("Unit"), vec![], vec![], Fields::Unit),
        sdef(
            path("Tup"),
            vec![],
            vec![],
            Fields::Unnamed(vec![
                unnamed(pr(U16)),
                unnamed(Ty::Tuple(vec![pr(U8), pr(Bool)])),
                unnamed(Ty::Tuple(vec![pr(U32)])),
                unnamed(Ty::Array(3, bx(pr(U8)))),
                unnamed(Ty::Tuple(vec![])),
            ]),
        ),
        sdef(
            path("Gen"),
            vec![p("T"), p("U")],
            vec![],
            Fields::Named(vec![
                named("t", Ty::Param(0)),
                named(
                    "v",
                    Ty::Seq(SeqKind::Vec, bx(Ty::Tuple(vec![Ty::Param(0), Ty::Param(1)]))),
                ),
                named("o", Ty::Opt(bx(Ty::Param(1)))),
                named("p", Ty::Phantom(bx(Ty::Param(1)))),
                named("n", Ty::Array(2, bx(Ty::Param(0)))),
            ]),
        ),
        sdef(
            path("Skip"),
            vec![
                p("T"),
                ParamDecl {
                    name: "S".into(),
                    skipped: true,
                    config: false,
                    compactable: false,
                    bitstore: false,
                    bitorder: false,
                },
            ],
            vec![],
            Fields::Named(vec![
                named("t", Ty::Param(0)),
                named("m", Ty::Phantom(bx(Ty::Param(1)))),
            ]),
        ),
        Def {
            path: path("En"),
            params: vec![p("T")],
            docs: vec![],
            body: Body::Enum(vec![
                VariantDef {
                    name: "A".into(),
                    index: 3,
                    fields: Fields::Unit,
                    docs: vec![],
                },
                VariantDef {
                    name: "B".into(),
                    index: 1,
                    fields: Fields::Unnamed(vec![unnamed(Ty::Param(0)), unnamed(pr(U8))]),
                    docs: vec![],
                },
                VariantDef {
                    name: "C".into(),
                    index: 7,
                    fields: Fields::Named(vec![
                        named("x", Ty::Ptr(PtrKind::Box, bx(Ty::Def(EN, vec![Ty::Param(0)])))),
                        named("y", Ty::Seq(SeqKind::Vec, bx(Ty::Def(EN, vec![Ty::Param(0)])))),
                    ]),
                    docs: vec!["variant doc".into()],
                },
            ]),
            config_inner: None,
        },
        sdef(
            path("Rec"),
            vec![],
            vec![],
            Fields::Named(vec![
                named(
                    "next",
                    Ty::Opt(bx(Ty::Ptr(PtrKind::Box, bx(Ty::Def(REC, vec![]))))),
                ),
                named("kids", Ty::Seq(SeqKind::Vec, bx(Ty::Def(REC, vec![])))),
                named("m", Ty::Map(bx(pr(U8)), bx(Ty::Def(REC, vec![])))),
            ]),
        ),
        sdef(
            path("Ptrs"),
            vec![],
            vec![],
            Fields::Named(vec![
                named("a", Ty::Ptr(PtrKind::Rc, bx(pr(U64)))),
                named("b", Ty::Ptr(PtrKind::Arc, bx(Ty::Def(PLAIN, vec![])))),
                named("c", Ty::Ptr(PtrKind::Box, bx(pr(U8)))),
                named("d", Ty::Seq(SeqKind::VecDeque, bx(pr(U8)))),
                named(
                    "e",
                    Ty::Ptr(PtrKind::Box, bx(Ty::Seq(SeqKind::Slice, bx(pr(U16))))),
                ),
                named("f", Ty::Cow(bx(Ty::StrSlice))),
                named("g", Ty::Cow(bx(Ty::Seq(SeqKind::Slice, bx(pr(U8)))))),
                named("h", Ty::Ptr(PtrKind::Ref, bx(pr(U32)))),
            ]),
        ),
        sdef(path("Wrap"), vec![], vec![], Fields::Unnamed(vec![unnamed(pr(U32))])),
        sdef(
            path("WrapNamed"),
            vec![],
            vec![],
            Fields::Named(vec![named("inner", pr(U64))]),
        ),
        sdef(
            path("Comp"),
            vec![],
            vec![],
            Fields::Named(vec![
                comp_a,
                named("b", Ty::Compact(bx(pr(U64)))),
                comp_w,
                named("v", Ty::Seq(SeqKind::Vec, bx(Ty::Compact(bx(pr(U16)))))),
                named("cw", Ty::Compact(bx(Ty::Def(WRAPNAMED, vec![])))),
            ]),
        ),
        Def {
            path: path("CompEn"),
            params: vec![],
            docs: vec![],
            body: Body::Enum(vec![
                VariantDef {
                    name: "A".into(),
                    index: 0,
                    fields: Fields::Unnamed(vec![ce_a0, unnamed(Ty::Compact(bx(pr(U8))))]),
                    docs: vec![],
                },
                VariantDef {
                    name: "B".into(),
                    index: 1,
                    fields: Fields::Named(vec![ce_bx]),
                    docs: vec![],
                },
            ]),
            config_inner: None,
        },
        sdef(
            path("Misc"),
            vec![],
            vec![],
            Fields::Named(vec![
                named("r", Ty::Range(bx(pr(U8)))),
                named("ri", Ty::RangeIncl(bx(pr(U32)))),
                named("nz", Ty::NonZero(U16)),
                named("d", Ty::Duration),
                named("s", Ty::Set(bx(pr(U8)))),
                named("h", Ty::Heap(bx(pr(U32)))),
                named("res", Ty::Res(bx(pr(U8)), bx(pr(Str)))),
                named("bits", Ty::BitVec(U8, false)),
                named("bits2", Ty::BitVec(U32, true)),
            ]),
        ),
        ca,
        cb,
        sdef(
            path("Assoc"),
            vec![cfgp(false)],
            vec![],
            Fields::Named(vec![
                named("f", Ty::Assoc(0)),
                named("g", Ty::Seq(SeqKind::Vec, bx(Ty::Assoc(0)))),
            ]),
        ),
        sdef(
            path("AssocSkip"),
            vec![cfgp(true)],
            vec![],
            Fields::Named(vec![named("f", Ty::Assoc(0))]),
        ),
        sdef(
            path_inner("Plain"),
            vec![],
            vec![],
            Fields::Named(vec![named("z", pr(I64))]),
        ),
        sdef(
            path_inner("Uses"),
            vec![],
            vec![],
            Fields::Named(vec![
                named("a", Ty::Def(GEN, vec![pr(U8), Ty::Def(IPLAIN, vec![])])),
                named(
                    "b",
                    Ty::Def(
                        GEN,
                        vec![
                            Ty::Def(IPLAIN, vec![]),
                            Ty::Def(GEN, vec![pr(U8), Ty::Def(UNIT, vec![])]),
                        ],
                    ),
                ),
                named(
                    "c",
                    Ty::Seq(
                        SeqKind::Vec,
                        bx(Ty::Def(GEN, vec![pr(U8), Ty::Def(IPLAIN, vec![])])),
                    ),
                ),
            ]),
        ),
        {
            let mut b = named("b", Ty::Param(0));
            b.compact_attr = true;
            sdef(
                path("GenComp"),
                vec![ParamDecl {
                    name: "B".into(),
                    skipped: false,
                    config: false,
                    compactable: true,
                    bitstore: false,
                    bitorder: false,
                }],
                vec![],
                Fields::Named(vec![
                    b,
                    named("c", Ty::Seq(SeqKind::Vec, bx(Ty::Param(0)))),
                    named("d", Ty::Compact(bx(Ty::Param(0)))),
                ]),
            )
        },
        sdef(
            path("GenBits"),
            vec![
                ParamDecl { bitstore: true, ..p("S") },
                ParamDecl { bitorder: true, ..p("O") },
            ],
            vec![],
            Fields::Named(vec![
                named("bits", Ty::BitVecP(bx(Ty::Param(0)), bx(Ty::Param(1)))),
                named(
                    "v",
                    Ty::Seq(SeqKind::Vec, bx(Ty::BitVecP(bx(Ty::Param(0)), bx(Ty::BitOrder(false))))),
                ),
                named(
                    "w",
                    Ty::Tuple(vec![Ty::BitVecP(bx(pr(U16)), bx(Ty::Param(1))), Ty::Param(0)]),
                ),
            ]),
        ),
        {
            let mut u = named("u", Ty::Tuple(vec![]));
            u.compact_attr = true;
            sdef(
                path("CompactUnit"),
                vec![],
                vec![],
                Fields::Named(vec![u, named("cu", Ty::Compact(bx(Ty::Tuple(vec![]))))]),
            )
        },
        sdef(
            BASE[..2].iter().map(|s| s.to_string()).chain(["rcq".to_string(), "Qual".to_string()]).collect(),
            vec![p("T")],
            vec![],
            Fields::Named(vec![
                named("a", Ty::Compact(bx(pr(U32)))),
                named("b", Ty::Ptr(PtrKind::Box, bx(Ty::Param(0)))),
                named(
                    "c",
                    Ty::Seq(SeqKind::Vec, bx(Ty::Tuple(vec![Ty::Param(0), Ty::Compact(bx(pr(U8)))]))),
                ),
                named("d", Ty::Ptr(PtrKind::Box, bx(Ty::Seq(SeqKind::Vec, bx(pr(U8)))))),
            ]),
        ),
        {
            let b = |t: Ty| Ty::Ptr(PtrKind::Box, bx(t));
            let v = |t: Ty| Ty::Seq(SeqKind::Vec, bx(t));
            let t = || Ty::Param(0);
            sdef(
                path("Ident"),
                vec![p("T")],
                vec!["one level of `Identity`: which of these share a registry entry?"],
                Fields::Named(vec![
                    named("a", b(t())),
                    named("b", v(b(t()))),
                    named("c", b(pr(Str))),
                    named("d", pr(Str)),
                    named("e", b(v(pr(U8)))),
                    named("f", v(pr(U8))),
                    named("g", Ty::Ptr(PtrKind::Rc, bx(b(pr(U8))))),
                    named("h", Ty::Ptr(PtrKind::Ref, bx(Ty::StrSlice))),
                    named("i", b(Ty::StrSlice)),
                    named("j", Ty::Tuple(vec![pr(U8), Ty::Phantom(bx(pr(U16)))])),
                    named("k", Ty::Tuple(vec![pr(U8), Ty::Phantom(bx(pr(U32)))])),
                    named("l", Ty::Cow(bx(Ty::StrSlice))),
                    named("m", v(pr(Str))),
                    named("n", v(Ty::Ptr(PtrKind::Ref, bx(Ty::StrSlice)))),
                    named("o", Ty::Seq(SeqKind::VecDeque, bx(pr(U8)))),
                    named("p", Ty::Opt(bx(b(t())))),
                    named("q", Ty::Opt(bx(t()))),
                    named("t", t()),
                    named("r", Ty::Ptr(PtrKind::Arc, bx(Ty::Seq(SeqKind::Slice, bx(pr(U8)))))),
                    named("s", b(Ty::Def(GEN, vec![pr(U8), b(pr(U8))]))),
                    named("u", Ty::Def(GEN, vec![pr(U8), pr(U8)])),
                ]),
            )
        },
        {
            let cbuf = |n: u32| sdef(
                BASE[..2].iter().map(|s| s.to_string()).chain(["rck".to_string(), "CBuf".to_string()]).collect(),
                vec![p("T")],
                vec![],
                Fields::Named(vec![named("data", Ty::Array(n, bx(Ty::Param(0)))), named("tag", Ty::Opt(bx(Ty::Param(0))))]),
            );
            cbuf(4)
        },
        {
            sdef(
                BASE[..2].iter().map(|s| s.to_string()).chain(["rck".to_string(), "CBuf".to_string()]).collect(),
                vec![p("T")],
                vec![],
                Fields::Named(vec![named("data", Ty::Array(8, bx(Ty::Param(0)))), named("tag", Ty::Opt(bx(Ty::Param(0))))]),
            )
        },
    ]
}

/// roots of the const-generic corpus (`Program::name_style == 2`)
pub fn roots_k() -> Vec<(MetaType, Ty)> {
    use Prim::*;
    vec![
        (MetaType::new::<rck::CBuf<u8, 4>>(), Ty::Def(CBUF4, vec![pr(U8)])),
        (MetaType::new::<rck::CBuf<u8, 8>>(), Ty::Def(CBUF8, vec![pr(U8)])),
        (MetaType::new::<rck::CBuf<u16, 4>>(), Ty::Def(CBUF4, vec![pr(U16)])),
        (MetaType::new::<rck::CBuf<bool, 8>>(), Ty::Def(CBUF8, vec![pr(Bool)])),
    ]
}

/// roots of the path-qualified corpus (`Program::name_style == 1`)
pub fn roots_q() -> Vec<(MetaType, Ty)> {
    use Prim::*;
    vec![
        (MetaType::new::<rcq::Qual<u8>>(), Ty::Def(QUAL, vec![pr(U8)])),
        (MetaType::new::<rcq::Qual<Vec<u8>>>(), Ty::Def(QUAL, vec![Ty::Seq(SeqKind::Vec, bx(pr(U8)))])),
        (MetaType::new::<rcq::Qual<rc::Unit>>(), Ty::Def(QUAL, vec![Ty::Def(UNIT, vec![])])),
    ]
}

/// (real meta type, model closed type)
pub fn roots() -> Vec<(MetaType, Ty)> {
    use rc::*;
    use Prim::*;
    let d = |i: usize, a: Vec<Ty>| Ty::Def(i, a);
    vec![
        (MetaType::new::<Plain>(), d(PLAIN, vec![])),
        (MetaType::new::<Unit>(), d(UNIT, vec![])),
        (MetaType::new::<Tup>(), d(TUP, vec![])),
        (MetaType::new::<Gen<u8, bool>>(), d(GEN, vec![pr(U8), pr(Bool)])),
        (
            MetaType::new::<Gen<Plain, Vec<u8>>>(),
            d(GEN, vec![d(PLAIN, vec![]), Ty::Seq(SeqKind::Vec, bx(pr(U8)))]),
        ),
        (MetaType::new::<Skip<u8, u16>>(), d(SKIP, vec![pr(U8), pr(U16)])),
        (MetaType::new::<Skip<u8, u32>>(), d(SKIP, vec![pr(U8), pr(U32)])),
        (MetaType::new::<En<u16>>(), d(EN, vec![pr(U16)])),
        (MetaType::new::<En<Unit>>(), d(EN, vec![d(UNIT, vec![])])),
        (MetaType::new::<Rec>(), d(REC, vec![])),
        (MetaType::new::<Ptrs>(), d(PTRS, vec![])),
        (MetaType::new::<Comp>(), d(COMP, vec![])),
        (MetaType::new::<CompEn>(), d(COMPEN, vec![])),
        (MetaType::new::<Misc>(), d(MISC, vec![])),
        (MetaType::new::<Assoc<CA>>(), d(ASSOC, vec![d(self::CA, vec![])])),
        (MetaType::new::<Assoc<CB>>(), d(ASSOC, vec![d(self::CB, vec![])])),
        (MetaType::new::<AssocSkip<CA>>(), d(ASSOCSKIP, vec![d(self::CA, vec![])])),
        (MetaType::new::<AssocSkip<CB>>(), d(ASSOCSKIP, vec![d(self::CB, vec![])])),
        (MetaType::new::<inner::Uses>(), d(IUSES, vec![])),
        (MetaType::new::<inner::Plain>(), d(IPLAIN, vec![])),
        (
            MetaType::new::<(u8, Vec<Option<Gen<u8, bool>>>)>(),
            Ty::Tuple(vec![
                pr(U8),
                Ty::Seq(
                    SeqKind::Vec,
                    bx(Ty::Opt(bx(d(GEN, vec![pr(U8), pr(Bool)])))),
                ),
            ]),
        ),
        (MetaType::new::<[Wrap; 4]>(), Ty::Array(4, bx(d(WRAP, vec![])))),
        (MetaType::new::<GenComp<u32>>(), d(GENCOMP, vec![pr(U32)])),
        (MetaType::new::<GenComp<Wrap>>(), d(GENCOMP, vec![d(WRAP, vec![])])),
        (
            MetaType::new::<GenBits<u8, bitvec::order::Lsb0>>(),
            d(GENBITS, vec![pr(U8), Ty::BitOrder(false)]),
        ),
        (
            MetaType::new::<GenBits<u64, bitvec::order::Msb0>>(),
            d(GENBITS, vec![pr(U64), Ty::BitOrder(true)]),
        ),
        (
            MetaType::new::<GenBits<u16, bitvec::order::Lsb0>>(),
            d(GENBITS, vec![pr(U16), Ty::BitOrder(false)]),
        ),
        (MetaType::new::<CompactUnit>(), d(COMPACTUNIT, vec![])),
        (MetaType::new::<Ident<u8>>(), d(IDENT, vec![pr(U8)])),
        (
            MetaType::new::<Ident<Vec<u8>>>(),
            d(IDENT, vec![Ty::Seq(SeqKind::Vec, bx(pr(U8)))]),
        ),
        (MetaType::new::<Ident<String>>(), d(IDENT, vec![pr(Str)])),
        (
            MetaType::new::<Ident<Box<u8>>>(),
            d(IDENT, vec![Ty::Ptr(PtrKind::Box, bx(pr(U8)))]),
        ),
        (
            MetaType::new::<Box<Ident<&'static str>>>(),
            Ty::Ptr(PtrKind::Box, bx(d(IDENT, vec![Ty::Ptr(PtrKind::Ref, bx(Ty::StrSlice))]))),
        ),
    ]
}

pub fn real_registry(metas: &[MetaType]) -> PortableRegistry {
    let mut r = Registry::new();
    for m in metas {
        r.register_type(m);
    }
    r.into()
}

/// Compares `lower(model)` with real scale-info for `rounds` random subsets/orders of roots.
pub fn self_check(seed: u64, rounds: usize) -> Result<(), String> {
    let defs = model_defs();
    for round in 0..rounds {
        let name_style = match round % 8 {
            3 => 1,
            5 => 2,
            _ => 0,
        };
        let all = match name_style {
            1 => roots_q(),
            2 => roots_k(),
            _ => roots(),
        };
        let bytes: Vec<u8> = (0..64)
            .map(|i| (mix(&[seed, round as u64, i]) & 0xff) as u8)
            .collect();
        let mut t = Tape::new(&bytes);
        let mut picked: Vec<usize> = vec![];
        if round == 0 || round == 3 || round == 5 {
            picked = (0..all.len()).collect();
        } else {
            let n = 1 + t.choose(all.len().min(8));
            for _ in 0..n {
                let i = t.choose(all.len());
                if !picked.contains(&i) {
                    picked.push(i);
                }
            }
        }
        let metas: Vec<MetaType> = picked.iter().map(|i| all[*i].0).collect();
        let real = real_registry(&metas);
        let prog = Program {
            name_style,
            defs: defs.clone(),
            roots: picked.iter().map(|i| all[*i].1.clone()).collect(),
        };
        let low = lower(&prog);
        let a = registry_json(&real);
        let b = registry_json(&low.registry);
        if a != b {
            // find first differing entry for the message
            let at = a["types"].as_array().cloned().unwrap_or_default();
            let bt = b["types"].as_array().cloned().unwrap_or_default();
            for i in 0..at.len().max(bt.len()) {
                if at.get(i) != bt.get(i) {
                    return Err(format!(
                        "lowering model disagrees with scale-info (round {round}, roots {picked:?}) at entry {i}:\n real : {}\n model: {}",
                        at.get(i).map(|v| v.to_string()).unwrap_or("<none>".into()),
                        bt.get(i).map(|v| v.to_string()).unwrap_or("<none>".into())
                    ));
                }
            }
            return Err("registries differ".into());
        }
    }
    Ok(())
}
