#!/usr/bin/env python3
"""prints the markdown table of DESIGN.md 10.5 (quick tier) from the evidence files as they are now"""
import json, os
HERE = os.path.dirname(os.path.dirname(os.path.abspath(__file__)))
print("| check | strata (evaluations) | distinct non-trivial | tolerated known | wall |")
print("|---|---|---|---|---|")
for i in range(1, 19):
    c = "C%02d" % i
    e = json.load(open(os.path.join(HERE, "evidence", c + ".json")))
    cov = e["coverage"]
    strata = ", ".join("%s %s%s" % (s["name"], f'{s["evaluations"]:,}'.replace(",", " "), " (exhaustive)" if s.get("exhaustive") else "") for s in cov["strata"])
    extra = {k: v for k, v in cov.get("counters", {}).items() if k in ("rustc_cases_compiled", "rustc_byte_round_trips", "rustc_payload_round_trips", "probes_run")}
    if extra:
        strata += "; " + ", ".join("%s %s" % (k, v) for k, v in sorted(extra.items()))
    tol = sum(cov.get("excluded_or_tolerated_known", {}).values())
    print("| %s (%s) | %s | %s | %s | %.0f s |" % (c, e["tier"], strata, f'{cov["distinct_nontrivial"]:,}'.replace(",", " "), tol, e["wall_s"]))
