#!/bin/bash
# seedlab.sh: evaluate seeded changes WITHOUT touching /repo (so that background runs that use /repo are not disturbed).
#   seedlab.sh setup            /tmp/seedlab/repo = git worktree of /repo HEAD; /tmp/seedlab/verif = copy of this checkout whose
#                               harness depends on /tmp/seedlab/repo; builds it
#   seedlab.sh run <patch> <check>...   apply patch in the lab repo, run the lab's quick checks, revert; prints CAUGHT/MISSED/INFRA
#   seedlab.sh teardown         removes both (and the worktree registration)
# The registered checks of MANIFEST.json never use this; it is a development tool.
HERE=$(dirname $(dirname $(realpath $0)))
LAB=${LAB:-/tmp/seedlab}
case "$1" in
setup)
  rm -rf $LAB/verif; git -C /repo worktree remove --force $LAB/repo 2>/dev/null; mkdir -p $LAB
  git -C /repo worktree add --detach $LAB/repo HEAD >/dev/null || exit 3
  rsync -a --exclude target --exclude work --exclude replays --exclude .git --exclude 'fuzz/corpus' --exclude 'fuzz/artifacts' $HERE/ $LAB/verif/
  sed -i "s#/repo/#$LAB/repo/#g" $LAB/verif/harness/Cargo.toml $LAB/verif/fuzz/Cargo.toml
  (cd $LAB/verif && VERIF_METADATA=$LAB/repo/artifacts/polkadot_metadata.scale ./check --setup 2>&1 | tail -2)
  ;;
run)
  shift; patch=$(realpath $1); shift
  cd $LAB/repo && git checkout -q -- . && git apply --check $patch || { echo "patch does not apply"; exit 3; }
  git apply $patch
  for id in "$@"; do
    out=$(cd $LAB/verif && VERIF_METADATA=$LAB/repo/artifacts/polkadot_metadata.scale VERIF_SEED=${VERIF_SEED:-11} ./check $id quick 2>&1); rc=$?
    if [ $rc -eq 1 ]; then echo "CAUGHT by $id :: $(echo "$out" | grep -m1 -E 'first:|probe .* failed|extra stage|does not terminate' | cut -c1-260)";
    elif [ $rc -eq 0 ]; then echo "MISSED by $id";
    else echo "INFRA($rc) $id :: $(echo "$out" | tail -2 | cut -c1-200)"; fi
  done
  git checkout -q -- .
  ;;
sync)
  # bring the lab's copy of the machinery up to date with this checkout (keeps its build output)
  rsync -a --exclude target --exclude work --exclude replays --exclude .git --exclude 'fuzz/corpus' --exclude 'fuzz/artifacts' $HERE/ $LAB/verif/
  sed -i "s#/repo/#$LAB/repo/#g" $LAB/verif/harness/Cargo.toml $LAB/verif/fuzz/Cargo.toml
  ;;
teardown)
  rm -rf $LAB/verif; git -C /repo worktree remove --force $LAB/repo; rmdir $LAB 2>/dev/null
  ;;
*) echo "usage: seedlab.sh setup|run <patch> <check>...|sync|teardown"; exit 2;;
esac
