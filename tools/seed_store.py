#!/usr/bin/env python3
"""seed_store.py <seed-id> <property> <demo-path-in-repo> <needs> <caught-by comma list> <missed-by comma list> [note]
copies /tmp/seed/<seed-id>-out/{patch.diff,demo.rs,notes.md} into /verif/seeded/<seed-id>/ and writes meta.json"""
import sys, os, shutil, json
sid, prop, demo_path, needs, caught, missed = sys.argv[1:7]
note = sys.argv[7] if len(sys.argv) > 7 else ""
src = "/tmp/seed/%s-out" % sid
dst = "/verif/seeded/%s" % sid
os.makedirs(dst, exist_ok=True)
for f in ("patch.diff", "demo.rs", "notes.md"):
    if os.path.exists(os.path.join(src, f)):
        shutil.copy(os.path.join(src, f), os.path.join(dst, f))
meta = {
    "id": sid,
    "property": prop,
    "breaks": "see notes.md (written by the sub-agent that seeded the change, which saw only the property text)",
    "needs_to_manifest": needs,
    "demo_placement": demo_path,
    "confirmed": [
        "tools/seed_confirm.sh in the scratch worktree: existing 54 unit tests + 3 doc tests pass with the patch; demo fails with the patch; demo passes without it",
        "tools/seed_run.sh: patch applied to /repo (git apply), quick checks run, /repo reverted (git checkout -- .)",
    ],
    "caught_by": [c for c in caught.split(",") if c],
    "missed_by": [c for c in missed.split(",") if c],
    "note": note,
}
json.dump(meta, open(os.path.join(dst, "meta.json"), "w"), indent=1)
print("stored", dst)
