#!/bin/bash
# usage: seed_confirm.sh <worktree> <patch.diff> <demo test name> 
# confirms in the scratch worktree: (a) existing suite green with patch, (b) demo red with patch, (c) demo green without patch
set -u
wt=$1; patch=$2; demo=$3
cd $wt
git apply -R --check $patch 2>/dev/null || { echo "patch not applied in worktree; applying"; git apply $patch || exit 3; }
echo "== (a) existing suite with patch (lib + doc tests)"
cargo test --workspace --offline --lib 2>&1 | grep -E "^test result|FAILED" | head -4
cargo test --workspace --offline --doc 2>&1 | grep -E "^test result|FAILED" | head -4
echo "== (b) demo with patch"
cargo test -p scale-typegen --offline --test $demo 2>&1 | grep -E "^test result|^test .* (ok|FAILED)" | head -8
git apply -R $patch
echo "== (c) demo without patch"
cargo test -p scale-typegen --offline --test $demo 2>&1 | grep -E "^test result|^test .* (ok|FAILED)" | head -8
git apply $patch
