#!/usr/bin/env python3
"""Regenerates /verif/MANIFEST.json from the table below (kept in one place so that the manifest
stays valid and in step with what is built)."""
import json, os
HERE = os.path.dirname(os.path.dirname(os.path.abspath(__file__)))

# id -> (level category, level text, level note, technique, design ref)
BUILT = {
 "C01": ("exploration",
         "Tens of thousands (quick) to a million (thorough) generated source programs are lowered to registries exactly as scale-info does (model self-checked against real scale-info at every run), generated with varied settings and random registry order, and for EVERY type id the type the generator names is interpreted inside the parsed output and compared with the registry type by coinductive SCALE-shape equality. Exploration is the right level: the property quantifies over all registries; no finite model exists, so breadth of generated type graphs with an exact oracle is what is attainable.",
         "Trusts the harness' table of std/scale-info shapes for external paths, the lowering model (validated against scale-info 2.11.5 on a corpus of real derives each run) and syn. Coincidental (non-CF) programs are discarded and counted. Substitute targets are assumed wire-faithful. Since the second session the programs include bit store/order parameters, path-qualified type names, Compact<()> and the duplicate equal-content entries real registries have (one level of scale-info's Identity); constructed regression probes pin two seeded changes; sub-registries of the Polkadot metadata are used for the ids admitted by the registry-only coincidence certificate (cert.rs).",
         "proptest-driven tape generator of source programs + differential oracle (registry shape vs interpreted generated items, coinductive bisimulation)",
         "DESIGN.md sections 3, 4.2, 5 C01"),
 "C02": ("exploration",
         "Generated programs from ALL strata (coincidental or not, associated types, two versions, look-alike names, recursion, skipped/unused parameters; de-duplicated first when paths repeat), the full Polkadot registry and random closed sub-registries are generated and the output is parsed with syn and put through a static checker that models the rustc errors the generator could cause (E0412 unresolved path through the `use super::root` chain, E0107 arity, E0392 unused parameter, E0428 duplicate names, E0072 recursive type without indirection with generic flow, duplicate codec indices). The rustc stage of the thorough tier compiles emitted modules for real.",
         "The static checker is a model of rustc for the emitted subset; user supplied paths (derives, substitutes, compact/bits paths) are assumed to exist. The thorough tier's rustc stage needs the cached crates of /repo's lockfile.",
         "proptest-driven tape generator of registries + validity predicate (parse + static name-resolution/arity/usage/cycle checker)",
         "DESIGN.md section 5 C02"),
 "C03": ("exploration",
         "Bounded-exhaustive enumeration of the catalogue of same-path families (Appendix B: all ordered pairs of members over small parameter lists, field terms and arguments, both registry orders; level 0 complete and level 1 strided in the quick tier, level 1 complete and level 2 strided in the thorough tier) plus random programs with associated-type and two-version definitions; oracle: generation succeeds only if every member is wire-faithfully represented by the kept item, and after ensure_unique_type_paths generation succeeds and the same holds.",
         "Uses the C01 shape oracle; coincidental families are included (counted) since the second session - C03's quantifier does not exclude them; the known finding dedup:renamed-path-collides is excluded by construction from part (b) and covered by its probe. Random families include near-miss versions (a definition copied with ONE mutation) and group versions (a whole group of definitions copied to the same paths, one copy mutated); a duplicate path that survives de-duplication is tolerated as the known finding only on registries of that finding's shape, otherwise it is dedup:insufficient.",
         "bounded-exhaustive family enumeration + proptest-driven random families against the property-shaped shape oracle",
         "DESIGN.md section 5 C03, Appendix B"),
 "C04": ("exploration",
         "Tens of thousands to a million generated registries with same-path families (generic instantiations, associated-type definitions, two versions with several shapes, names ending in digits, random order) plus closed sub-registries of the Polkadot metadata are put through ensure_unique_type_paths and the result is compared with the input clause by clause (frame condition, all-or-nothing renaming, numbering by first appearance, instantiations of one coincidence-free definition stay together, idempotence, no DuplicateTypePath afterwards).",
         "Whether two groups really differ in shape is C03's oracle; the ground truth for 'instantiations of one definition' comes from the source program and is used for coincidence-free programs only. Registries with the known finding's shape (family next to an existing Name<digits>) are excluded and counted. Near-miss and group versions as in C03; a constructed regression probe runs every root order of a three-shape family over a nested two-shape family.",
         "proptest-driven tape generator of family-rich registries + before/after model of the de-duplication contract + metamorphic idempotence check",
         "DESIGN.md section 5 C04"),
 "C16": ("exploration",
         "Model-based (state machine) testing: histories of 0..40 public builder calls (global/specific/recursive derives and attributes; substitutes insert / insert_if_not_exists / extend with valid and invalid arguments of every documented kind) are run against TypeGeneratorSettings and against a set/map model; after every step the rule map (iter/contains) equals the model and a rejected call returned the documented kind and changed nothing; after the history the derives/attributes of every item of a fixed probe registry (chain, diamond, cycle, generic) and the active substitution rules equal the model.",
         "The probe registry is fixed; reachability for recursive registrations is computed by the harness on it. NoMatchingFromType is never asserted (the code treats an unmatched ident as a concrete type).",
         "proptest-driven operation sequences interpreted against a reference state machine (model-based testing)",
         "DESIGN.md section 5 C16"),
 "C17": ("exploration",
         "Coincidence-free generated programs (generics with several instantiations, associated types, two versions, recursion): three random permutations with consistent renumbering must leave the module tokens (or the error) unchanged and induce the same de-duplication groups with outputs identical modulo the suffix bijection; three random reachability-closed sub-registries (PortableRegistry::retain) must yield identical items for every retained path, string-equal descriptions and equally valid examples (C12/C14 oracles) for every retained id; Polkadot sub-registries for the description/example clauses.",
         "Per-path recursive derives are excluded (they legitimately depend on the first instantiation). Programs with two same-path definitions that the type graph cannot tell apart although their source differs (decided on the source program) may fail the output-identity clauses with the known finding c17:keep-first-among-same-shape-versions. Item identity on Polkadot sub-registries is not claimed. A second stratum forces group versions (every definition reachable from a chosen one copied to the same path, one copy mutated); a constructed regression probe runs all 24 arrangements of two mutually recursive two-version paths.",
         "proptest-driven generator + metamorphic relations (permutation with renumbering, restriction by reachability)",
         "DESIGN.md section 5 C17"),
 "C18": ("exploration",
         "For every struct and every variant of every emitted non-generic item of generated registries (and of the full Polkadot registry under four settings) the public composite API (create_composite_ir_kind + CompositeIR::new + upcast_composite) is called and the resulting struct is parsed and compared with the registry field list by the C01 shape oracle, with the tokens/compact markers of the same variant in the emitted enum, and with the derive/attribute model (global only; CompactAs iff configured and exactly one unsigned field <= 128 bits, Cow transparent, boxed integer accepted either way).",
         "Byte-level clause: a rustc stage compiles the standalone structs of a batch of generated registries inside the generated module with parity-scale-codec derives and decodes/re-encodes the payloads of valid enum encodings (encoding minus the index byte) from an independent SCALE value encoder; with insert_codec_attributes off the shape clause is not evaluated (documented behaviour of the generator).",
         "proptest-driven tape generator + differential oracle (registry field list vs interpreted standalone struct vs the enum's own variant) + derive-set model + compile-and-round-trip stage under rustc",
         "DESIGN.md section 5 C18"),
 "C05": ("exploration",
         "Coincidence-free generated programs of (generic) definitions in nested modules with 1-3 instantiations each are lowered and generated in lowering order and in two random permutations; a reference translator written from the property text maps each source definition to the expected item (non-skipped parameters in declaration order, source field types under the documented normalisations, one trailing marker naming exactly the otherwise unused parameters) and the emitted item must equal it up to a consistent renaming of the generic parameters.",
         "The translator's table of rooted prelude paths is the harness' (independent of type_path.rs). Non-coincidence-free programs are discarded (counted). The look-alike stratum (MyBox etc.) is excluded: `type_name.contains(\"Box<\")` also matches MyBox<, a wire-neutral spurious Box documented in DESIGN.md.",
         "proptest-driven generator of source programs + reference translator (second implementation) + permutation of the registry order",
         "DESIGN.md section 5 C05"),
 "C06": ("exploration",
         "Thousands of (registry, rich settings) cases - generated programs and Polkadot sub-registries with >= 6 derives, >= 4 attributes, >= 5 per-path/recursive registrations and >= 5 substitutes - are observed (module tokens, de-duplicated registry, validation result as sets) repeatedly in one thread (every HashMap draws fresh RandomState keys), on fresh threads, with the registration calls permuted, and for a sample in fresh processes; all observations must be identical and every derive/attribute list strictly increasing.",
         "'All hash-map seeds' is sampled (tens of RandomStates, a few processes per case). Substitute sources are pairwise distinct so that a permuted history denotes the same rule set.",
         "proptest-driven generator + metamorphic relations (repetition, fresh threads, fresh processes, permuted registration order) + sortedness predicate",
         "DESIGN.md section 5 C06"),
 "C07": ("exploration",
         "Generated registries are generated without and with 1-4 generated substitution rules (pass-through; declared generics with fewer/as many/more source idents, target nesting idents at depth 0-3, repeated, permuted, dropped, mixed with fixed arguments) and the two outputs are read in lockstep: no substituted path is defined or referenced, every other item survives, and every field type and every resolve_type_path(id) equals the reference substitution of its unsubstituted form.",
         "Source idents nested in tuples/arrays/references of the target are outside the documented rule grammar and not generated. Markers of items may differ between the two generations and are ignored here.",
         "proptest-driven generator of registries and rule sets + reference substitution (second implementation) applied in lockstep to the unsubstituted output",
         "DESIGN.md section 5 C07"),
 "C08": ("exploration",
         "Generated registries (cycles, tuples/arrays/compact/maps/generic arguments between types, random order) and Polkadot sub-registries with global, specific and several overlapping recursive derive and attribute registrations: every emitted item's derive/attribute sets must lie between a lower bound (global + specific + closure of each recursive root over the OUTPUT) and an upper bound (recursive sets only where registry reachability allows), and CompactAs must be present exactly for structs with one plain unsigned field <= 128 bits when configured.",
         "Boxed integer fields, parameter-typed and compact fields are not asserted for CompactAs (the property text does not decide them).",
         "proptest-driven generator + set model with lower (output closure) and upper (registry reachability) bounds",
         "DESIGN.md section 5 C08"),
 "C09": ("exploration",
         "For each generated registry that uses the heap prelude types, docs and compact fields, ALL 32 combinations of the five switches (alloc path, docs, codec attributes, root name, compact+bits paths) are generated; each output is checked directly against the registry (alloc-rooted paths and no std, docs exactly the registry's or none, codec index/compact markers exactly the registry's or none) and a normaliser that replaces exactly the governed tokens must map all 32 outputs to one normal form.",
         "User supplied paths in these settings never start with ::std / an alloc root and carry no codec attribute. Exhaustive over the switch combinations per case, sampled over registries.",
         "proptest-driven generator x exhaustive 2^5 switch enumeration per case + direct predicates + metamorphic normal-form equality",
         "DESIGN.md section 5 C09"),
 "C10": ("fault_enumeration",
         "Fault-free part: tens of thousands of generated registries from all strata and Polkadot sub-registries with supported settings must never panic and fail only with DuplicateTypePath (generate_types_mod, ensure_unique_type_paths, resolve_type_path for every id). Fault part: for thousands of base registries EVERY single fault of each documented kind at EVERY site (each entry id, each multi-field composite/variant, each struct field / variant field / nested element position that generation resolves, each with a missing compact path, a missing bits path or a dangling id) is injected and the exact documented error kind with its payload is required, under catch_unwind.",
         "One fault at a time; base registries have unique paths and no recursive derives as the property demands; sites are enumerated exhaustively per base registry, base registries are sampled.",
         "exhaustive single-fault injection per generated base registry + error-kind model under catch_unwind",
         "DESIGN.md section 5 C10"),
 "C11": ("exploration",
         "Hundreds of thousands of generated (registry, registrations, substitutes) cases mixing known paths with unknown ones (mutated last segment, wrong module, extra segment, prefix only, generics on the path), several unknown at once and one path registered both specifically and recursively, are validated and the result is compared with a set model (Ok iff nothing unknown; each unknown path exactly once with the union of its derives/attributes; unknown substitutes with their targets); similar-path queries are compared with a list model in registry order.",
         "Paths are compared by their identifiers (generic arguments ignored), as the documentation of the settings says.",
         "proptest-driven generator + reference set model",
         "DESIGN.md section 5 C11"),
 "C12": ("exploration",
         "For every type id of tens of thousands of generated registries (cyclic graphs, empty enums, bit sequences, compact wrappers, maps, 1-tuples, Duration) and of the full Polkadot registry, and for boundary and random seeds, scale_value_from_seed runs under catch_unwind; a returned value must encode against the same id with scale-value, decode back consuming all input to an equal value, be reproducible for the seed, and must exist whenever the reachable types contain no cycle and no empty enum.",
         "scale-value 0.18 (scale-encode 0.10 / scale-decode 0.16) is the reference codec. char and U256/I256 leaves are excluded from the main search (known findings: the pinned scale-encode cannot encode those primitives) and covered by probes; ids whose example would exceed 5000 leaves are skipped and counted. Termination is decided, not assumed: a case that runs longer than 60 s (ordinary cases take milliseconds) stops the campaign with exit 86 and the driver re-runs that case alone twice with 240 s each; only two killed re-runs are reported as non-termination, a case that finishes alone is exit 2 (inconclusive).",
         "proptest-driven generator + round-trip oracle through a third-party codec + determinism relation + totality predicate",
         "DESIGN.md section 5 C12"),
 "C13": ("exploration",
         "For every type id of tens of thousands of generated registries (mutual recursion, repeated unnamed types, skipped parameters, bit sequences, 1-tuples, Box fields, U256) and of the full Polkadot registry the unformatted description is read by a strict lockstep matcher against the registry (expand-or-name at struct/enum positions with an independent name renderer, every structural token checked literally, consumed exactly), every reachable struct/enum must have been written out at least once, the formatted text must equal it up to whitespace, and the whitespace-free text passes the C15 formatter oracle.",
         "The description grammar accepted by the matcher is written from the property text and the documented/pinned forms (`struct Unit()`, `enum E{}`, `BitSequence(order, store)`, field-level Box). Termination is decided, not assumed: a case that runs longer than 60 s (ordinary cases take milliseconds) stops the campaign with exit 86 and the driver re-runs that case alone twice with 240 s each; only two killed re-runs are reported as non-termination, a case that finishes alone is exit 2 (inconclusive).",
         "proptest-driven generator + lockstep matcher (validity predicate) + whitespace-erasure relation",
         "DESIGN.md section 5 C13"),
 "C14": ("exploration",
         "For every type id of generated registries without bit sequences and 256-bit integers, and boundary/random seeds, under varied path settings, rust_value_from_seed runs under catch_unwind; a returned token stream must parse as a Rust expression and a lockstep walk against the registry and the emitted item for that id must accept it (paths without generics, field names and arity incl. the unused-parameter marker, typed literals, tuple/array/vec arity, Compact(..) accepted never required); two calls with one seed agree.",
         "Coincidental (non-CF) programs are discarded because the emitted item's marker is the first instantiation's. For prelude types without a generated item (Option, BTreeMap, ...) only path and registry field list are checked.",
         "proptest-driven generator + lockstep walk of syn::Expr against registry and parsed generated item + determinism relation",
         "DESIGN.md section 5 C14"),
 "C15": ("exploration",
         "Bounded-exhaustive enumeration of all strings over the 9-character bracket alphabet up to length 7 (quick) / 9 (thorough) plus tape-driven random hostile strings and properly nested strings around the 32-character look-ahead, each checked against a whitespace-only relation and an indentation depth model; every description produced by the C13 check is also fed through it. Exploration is the right level: the function is total over strings, cheap, and its only state is a depth counter, so small-scope exhaustiveness plus boundary-directed generation covers its decision structure.",
         "Trusts the harness' depth model (validated against the unchanged formatter on the exhaustive stratum) and Rust's char::is_whitespace. The small/large scope decision is not constrained. Termination is decided, not assumed: a case that runs longer than 60 s (ordinary cases take milliseconds) stops the campaign with exit 86 and the driver re-runs that case alone twice with 240 s each; only two killed re-runs are reported as non-termination, a case that finishes alone is exit 2 (inconclusive).",
         "bounded-exhaustive enumeration + proptest-driven tape generators against a reference depth model and a whitespace-erasure relation",
         "DESIGN.md section 5, C15"),
}
PENDING_REASON = "check not built yet in this session (work in progress, see DESIGN.md section 8 build order); not a claim that the technique cannot apply"

props = [json.loads(l) for l in open(os.path.join(HERE, "properties.jsonl"))]
checks, na = [], []
for p in props:
    pid = p["id"]
    if pid in BUILT:
        cat, text, note, tech, ref = BUILT[pid]
        checks.append({
            "property_id": pid,
            "quick_cmd": "./check %s quick" % pid,
            "thorough_cmd": "./check %s thorough" % pid,
            "evidence_file": "evidence/%s.json" % pid,
            "replay_cmd_template": "./check %s --replay {path}" % pid,
            "engine": "vcheck",
            "level_claimed": {"category": cat, "text": text, "design_ref": ref},
            "level_note": note,
            "technique": tech,
        })
    else:
        na.append({"property_id": pid, "reason": PENDING_REASON})

m = {
 "version": 1,
 "setup_cmd": "./check --setup",
 "hooks": {
   "guard": "scale_typegen_verif",
   "enable": "none needed: every oracle observes public API only; the cfg name is reserved (RUSTFLAGS='--cfg scale_typegen_verif') and no source commit uses it",
   "baseline_off_cmd": "cd /repo && cargo test --workspace --no-fail-fast --offline",
   "source_commits": [],
   "add_only": True,
 },
 "engines": [
   {"name": "vcheck", "path": "harness", "serves_properties": [c["property_id"] for c in checks],
    "kind_free_text": "Rust harness (library vlib + binary vcheck) path-dependent on /repo/typegen and /repo/description: tape-decoded generators driven by proptest (fixed seed from VERIF_SEED, own shrinking loop), bounded-exhaustive strata, explicit oracles, evidence writer; driven by the python script ./check"},
 ],
 "checks": checks,
 "not_applicable": na,
 "notes": "Exit codes of every command: 0 held, 1 violation (VIOLATION line), 2 infrastructure trouble (never a violation). known_findings.json lists genuine defects (known / fixed).",
}
json.dump(m, open(os.path.join(HERE, "MANIFEST.json"), "w"), indent=1)
print("checks:", [c["property_id"] for c in checks], "pending:", len(na))
