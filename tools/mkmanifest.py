#!/usr/bin/env python3
"""Regenerates /verif/MANIFEST.json from the table below (kept in one place so that the manifest
stays valid and in step with what is built)."""
import json, os
HERE = os.path.dirname(os.path.dirname(os.path.abspath(__file__)))

# id -> (level category, level text, level note, technique, design ref)
BUILT = {
 "C01": ("exploration",
         "Tens of thousands (quick) to a million (thorough) generated source programs are lowered to registries exactly as scale-info does (model self-checked against real scale-info at every run), generated with varied settings and random registry order, and for EVERY type id the type the generator names is interpreted inside the parsed output and compared with the registry type by coinductive SCALE-shape equality. Exploration is the right level: the property quantifies over all registries; no finite model exists, so breadth of generated type graphs with an exact oracle is what is attainable.",
         "Trusts the harness' table of std/scale-info shapes for external paths, the lowering model (validated against scale-info 2.11.5 on a corpus of real derives each run) and syn. Coincidental (non-CF) programs are discarded and counted. Substitute targets are assumed wire-faithful.",
         "proptest-driven tape generator of source programs + differential oracle (registry shape vs interpreted generated items, coinductive bisimulation)",
         "DESIGN.md sections 3, 4.2, 5 C01"),
 "C02": ("exploration",
         "Generated programs from ALL strata (coincidental or not, associated types, two versions, look-alike names, recursion, skipped/unused parameters; de-duplicated first when paths repeat), the full Polkadot registry and random closed sub-registries are generated and the output is parsed with syn and put through a static checker that models the rustc errors the generator could cause (E0412 unresolved path through the `use super::root` chain, E0107 arity, E0392 unused parameter, E0428 duplicate names, E0072 recursive type without indirection with generic flow, duplicate codec indices). The rustc stage of the thorough tier compiles emitted modules for real.",
         "The static checker is a model of rustc for the emitted subset; user supplied paths (derives, substitutes, compact/bits paths) are assumed to exist. The thorough tier's rustc stage needs the cached crates of /repo's lockfile.",
         "proptest-driven tape generator of registries + validity predicate (parse + static name-resolution/arity/usage/cycle checker)",
         "DESIGN.md section 5 C02"),
 "C03": ("exploration",
         "Bounded-exhaustive enumeration of the catalogue of same-path families (Appendix B: all ordered pairs of members over small parameter lists, field terms and arguments, both registry orders; level 0 complete and level 1 strided in the quick tier, level 1 complete and level 2 strided in the thorough tier) plus random programs with associated-type and two-version definitions; oracle: generation succeeds only if every member is wire-faithfully represented by the kept item, and after ensure_unique_type_paths generation succeeds and the same holds.",
         "Uses the C01 shape oracle; coincidental families are skipped and counted; the known finding dedup:renamed-path-collides is excluded by construction from part (b) and covered by its probe.",
         "bounded-exhaustive family enumeration + proptest-driven random families against the property-shaped shape oracle",
         "DESIGN.md section 5 C03, Appendix B"),
 "C04": ("exploration",
         "Tens of thousands to a million generated registries with same-path families (generic instantiations, associated-type definitions, two versions with several shapes, names ending in digits, random order) plus closed sub-registries of the Polkadot metadata are put through ensure_unique_type_paths and the result is compared with the input clause by clause (frame condition, all-or-nothing renaming, numbering by first appearance, instantiations of one coincidence-free definition stay together, idempotence, no DuplicateTypePath afterwards).",
         "Whether two groups really differ in shape is C03's oracle; the ground truth for 'instantiations of one definition' comes from the source program and is used for coincidence-free programs only. Registries with the known finding's shape (family next to an existing Name<digits>) are excluded and counted.",
         "proptest-driven tape generator of family-rich registries + before/after model of the de-duplication contract + metamorphic idempotence check",
         "DESIGN.md section 5 C04"),
 "C18": ("exploration",
         "For every struct and every variant of every emitted non-generic item of generated registries (and of the full Polkadot registry under four settings) the public composite API (create_composite_ir_kind + CompositeIR::new + upcast_composite) is called and the resulting struct is parsed and compared with the registry field list by the C01 shape oracle, with the tokens/compact markers of the same variant in the emitted enum, and with the derive/attribute model (global only; CompactAs iff configured and exactly one unsigned field <= 128 bits, Cow transparent, boxed integer accepted either way).",
         "Byte-level equality of struct encoding and variant payload follows from shape equality (same oracle as C01).",
         "proptest-driven tape generator + differential oracle (registry field list vs interpreted standalone struct vs the enum's own variant) + derive-set model",
         "DESIGN.md section 5 C18"),
 "C15": ("exploration",
         "Bounded-exhaustive enumeration of all strings over the 9-character bracket alphabet up to length 7 (quick) / 9 (thorough) plus tape-driven random hostile strings and properly nested strings around the 32-character look-ahead, each checked against a whitespace-only relation and an indentation depth model; every description produced by the C13 check is also fed through it. Exploration is the right level: the function is total over strings, cheap, and its only state is a depth counter, so small-scope exhaustiveness plus boundary-directed generation covers its decision structure.",
         "Trusts the harness' depth model (validated against the unchanged formatter on the exhaustive stratum) and Rust's char::is_whitespace. The small/large scope decision is not constrained.",
         "bounded-exhaustive enumeration + proptest-driven tape generators against a reference depth model and a whitespace-erasure relation",
         "DESIGN.md section 5, C15"),
}
PENDING_REASON = "check not built yet in this session (work in progress, see DESIGN.md section 8 build order); not a claim that the technique cannot apply"

props = [json.loads(l) for l in open(os.path.join(HERE, "properties.jsonl"))]
checks, na = [], []
for p in props:
    pid = p["id"]
    if pid in BUILT:
        cat, text, note, tech, ref = BUILT[pid]
        checks.append({
            "property_id": pid,
            "quick_cmd": "./check %s quick" % pid,
            "thorough_cmd": "./check %s thorough" % pid,
            "evidence_file": "evidence/%s.json" % pid,
            "replay_cmd_template": "./check %s --replay {path}" % pid,
            "engine": "vcheck",
            "level_claimed": {"category": cat, "text": text, "design_ref": ref},
            "level_note": note,
            "technique": tech,
        })
    else:
        na.append({"property_id": pid, "reason": PENDING_REASON})

m = {
 "version": 1,
 "setup_cmd": "./check --setup",
 "hooks": {
   "guard": "scale_typegen_verif",
   "enable": "none needed: every oracle observes public API only; the cfg name is reserved (RUSTFLAGS='--cfg scale_typegen_verif') and no source commit uses it",
   "baseline_off_cmd": "cd /repo && cargo test --workspace --no-fail-fast --offline",
   "source_commits": [],
   "add_only": True,
 },
 "engines": [
   {"name": "vcheck", "path": "harness", "serves_properties": [c["property_id"] for c in checks],
    "kind_free_text": "Rust harness (library vlib + binary vcheck) path-dependent on /repo/typegen and /repo/description: tape-decoded generators driven by proptest (fixed seed from VERIF_SEED, own shrinking loop), bounded-exhaustive strata, explicit oracles, evidence writer; driven by the python script ./check"},
 ],
 "checks": checks,
 "not_applicable": na,
 "notes": "Exit codes of every command: 0 held, 1 violation (VIOLATION line), 2 infrastructure trouble (never a violation). known_findings.json lists genuine defects (known / fixed).",
}
json.dump(m, open(os.path.join(HERE, "MANIFEST.json"), "w"), indent=1)
print("checks:", [c["property_id"] for c in checks], "pending:", len(na))
