#!/bin/bash
# seed_all.sh [seed-id...] : for every stored seeded change (default: all) apply it to /repo, run the quick checks
# named in its meta.json caught_by list, revert; one line per (seed, check). Needs a clean /repo working tree.
HERE=$(dirname $(dirname $(realpath $0)))
# SEED_LAB=1: use tools/seedlab.sh (scratch worktree + copy of the machinery, set up with `seedlab.sh setup`) instead of /repo
if [ -z "${SEED_LAB:-}" ]; then cd /repo && [ -z "$(git status --short)" ] || { echo "/repo working tree is not clean"; exit 3; }; fi
ids="$@"; [ -n "$ids" ] || ids=$(ls $HERE/seeded)
for id in $ids; do
  checks=$(python3 -c "import json;print(' '.join(json.load(open('$HERE/seeded/$id/meta.json'))['caught_by']))")
  echo "== $id (expected: $checks)"
  if [ -n "${SEED_LAB:-}" ]; then $HERE/tools/seedlab.sh run $HERE/seeded/$id/patch.diff $checks; else $HERE/tools/seed_run.sh $HERE/seeded/$id/patch.diff $checks; fi
done
