#!/bin/bash
# usage: seed_run.sh <patch.diff> <check-id>...   applies the seeded change to /repo, runs the quick checks, reverts.
set -u
patch=$1; shift
cd /repo
git apply --check $patch || { echo "patch does not apply"; exit 3; }
git apply $patch
for id in "$@"; do
  out=$(cd /verif && VERIF_SEED=${VERIF_SEED:-11} ./check $id quick 2>&1); rc=$?
  if [ $rc -eq 1 ]; then echo "CAUGHT by $id :: $(echo "$out" | grep -m1 -E 'first:|probe .* failed|extra stage|does not terminate' | cut -c1-260)";
  elif [ $rc -eq 0 ]; then echo "MISSED by $id";
  else echo "INFRA($rc) $id :: $(echo "$out" | tail -2 | cut -c1-200)"; fi
done
git checkout -- . ; git status --short | head -3
