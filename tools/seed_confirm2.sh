#!/bin/bash
# usage: seed_confirm2.sh <worktree> <patch.diff>   (demo at typegen/tests/demo.rs or description/tests/demo.rs)
# prints three verdict lines: SUITE_WITH_PATCH, DEMO_WITH_PATCH, DEMO_WITHOUT_PATCH
wt=$1; patch=$2
cd $wt || exit 3
if [ -f description/tests/demo.rs ]; then pkg="-p scale-typegen-description --all-features"; else pkg="-p scale-typegen"; fi
git apply -R --check $patch 2>/dev/null || git apply $patch || exit 3
a=$( (cargo test --workspace --offline --lib 2>&1; cargo test --workspace --offline --doc 2>&1) | grep -E "^test result" | awk '{p+=$4; f+=$6} END {print "passed=" p " failed=" f}')
echo "SUITE_WITH_PATCH $a"
b=$(timeout 600 cargo test $pkg --offline --test demo 2>&1 | grep -E "^test result" | head -1)
echo "DEMO_WITH_PATCH $b"
git apply -R $patch
c=$(timeout 600 cargo test $pkg --offline --test demo 2>&1 | grep -E "^test result" | head -1)
echo "DEMO_WITHOUT_PATCH $c"
git apply $patch
