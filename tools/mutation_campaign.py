#!/usr/bin/env python3
"""Mutation campaign: how many small changes of /repo's library code that COMPILE and PASS the repo's own tests
are caught by the quick checks?

  LAB=/tmp/mutlab tools/seedlab.sh setup        (once; a scratch worktree of /repo + a copy of the machinery)
  tools/mutation_campaign.py [--n N] [--seed S] [--files glob] [--resume]

For each sampled mutant (file, line, operator): apply it in the lab's repo; `cargo test --workspace --lib` there
(does not compile -> stillborn; a test fails -> killed_by_tests; both uninteresting); survivors are run against the
quick checks in relevance order until one exits 1 (caught_by) or all exit 0 (missed). Exit 2 of a check is recorded
as infra and does not count. Results are appended to /verif/mutation/results.jsonl (one JSON object per mutant).
/repo itself is never touched."""
import argparse, glob, json, os, random, re, subprocess, sys, time

LAB = os.environ.get("LAB", "/tmp/mutlab")
REPO = os.path.join(LAB, "repo")
VERIF = os.path.join(LAB, "verif")
HERE = os.path.dirname(os.path.dirname(os.path.abspath(__file__)))
OUT = os.path.join(HERE, "mutation", "results.jsonl")
OUT_TESTS = os.path.join(HERE, "mutation", "results_tests.jsonl")
OUT_CHECKS = os.path.join(HERE, "mutation", "results_checks.jsonl")

FILES = {
    "typegen/src/utils.rs": ["C03", "C04", "C17", "C05", "C10", "C01", "C02"],
    "typegen/src/typegen/mod.rs": ["C01", "C02", "C05", "C18", "C10", "C09", "C08", "C07", "C17", "C14"],
    "typegen/src/typegen/type_params.rs": ["C02", "C17", "C05", "C14", "C18"],
    "typegen/src/typegen/type_path.rs": ["C01", "C02", "C09", "C05", "C07", "C18", "C08"],
    "typegen/src/typegen/ir/type_ir.rs": ["C02", "C09", "C01", "C08", "C18", "C06", "C05"],
    "typegen/src/typegen/ir/module_ir.rs": ["C02", "C06", "C17", "C01"],
    "typegen/src/typegen/validation.rs": ["C11"],
    "typegen/src/typegen/settings/derives.rs": ["C08", "C16", "C06", "C18", "C11"],
    "typegen/src/typegen/settings/substitutes.rs": ["C07", "C16", "C11", "C01"],
    "typegen/src/typegen/settings/mod.rs": ["C09", "C16", "C02"],
    "description/src/description.rs": ["C13", "C17"],
    "description/src/formatting.rs": ["C15", "C13"],
    "description/src/transformer.rs": ["C13", "C12", "C14"],
    "description/src/lib.rs": ["C13", "C15"],
    "description/src/type_example/rust_value.rs": ["C14", "C17"],
    "description/src/type_example/scale_value.rs": ["C12", "C17"],
    "description/src/type_example/mod.rs": ["C12", "C14"],
}
ALL = ["C%02d" % i for i in range(1, 19)]

# (name, regex, replacement)  - applied to ONE match in ONE line
OPS = [
    ("eq_to_ne", r" == ", " != "), ("ne_to_eq", r" != ", " == "),
    ("and_to_or", r" && ", " || "), ("or_to_and", r" \|\| ", " && "),
    ("lt_to_le", r" < ", " <= "), ("gt_to_ge", r" > ", " >= "), ("le_to_lt", r" <= ", " < "), ("ge_to_gt", r" >= ", " > "),
    ("true_to_false", r"\btrue\b", "false"), ("false_to_true", r"\bfalse\b", "true"),
    ("drop_not", r"(?<![\w=!<>])!(?=[a-z_(])(?!=)", ""),
    ("some_none", r"\.is_some\(\)", ".is_none()"), ("none_some", r"\.is_none\(\)", ".is_some()"),
    ("any_all", r"\.any\(", ".all("), ("all_any", r"\.all\(", ".any("),
    ("first_last", r"\.first\(\)", ".last()"), ("last_first", r"\.last\(\)", ".first()"),
    ("min_max", r"\.min\(", ".max("), ("max_min", r"\.max\(", ".min("),
    ("plus1", r" \+ 1\b", " + 2"), ("minus1", r" - 1\b", ""),
    ("zero_one", r"(?<![\w.])0(?![\w.])", "1"), ("one_two", r"(?<![\w.])1(?![\w.])", "2"),
    ("is_empty_neg", r"(\b[\w.()]+)\.is_empty\(\)", r"!\1.is_empty()"),
    ("drop_continue", r"\bcontinue;", ""), ("drop_break", r"\bbreak;", ""),
    ("drop_stmt", r"^(\s+)([a-z_][\w.]*\([^;]*\);)\s*$", r"\1"),
    ("and_then_skip", r"\.filter\(", ".skip_while("),
    ("ok_or_swap", r"\bunwrap_or\(true\)", "unwrap_or(false)"),
    # second batch
    ("cond_true", r"\bif (?!let\b)(.+) \{$", "if true {"), ("cond_false", r"\bif (?!let\b)(.+) \{$", "if false {"),
    ("prim_swap_u", r"primitive::u(8|16|32|64)\b", lambda m: "primitive::u" + {"8": "16", "16": "32", "32": "64", "64": "128"}[m.group(1)]),
    ("prim_swap_i", r"primitive::i(8|16|32|64)\b", lambda m: "primitive::i" + {"8": "16", "16": "32", "32": "64", "64": "128"}[m.group(1)]),
    ("drop_rev", r"\.rev\(\)", ""), ("skip_first", r"\.iter\(\)", ".iter().skip(1)"),
    ("plus_minus", r" \+ (?=[a-z(])", " - "), ("pluseq_minuseq", r" \+= ", " -= "),
    ("drop_sort", r"^(\s+)([\w.]+\.sort[\w]*\([^;]*\);)\s*$", r"\1"),
    ("drop_question_some", r"\.then\(\|\| ", ".then_some((|| "),
    # third batch: the token templates (quote! / parse_quote!)
    ("drop_quote_line", r"^\s+#(docs|variant_docs|codec_index|derives|marker|codec_skip)\s*$", ""),
    ("drop_compact_attr", r"#compact_attr ", ""), ("drop_pub", r"\bpub (?=#|__ignore)", ""),
    ("unbox", r"#alloc_path::boxed::Box<#ty_path>", "#ty_path"),
    ("rename_marker", r"__ignore\b", "__ignored"), ("rename_marker_variant", r"__Ignore\b", "__Ignored"),
    ("table_set_heap", r"collections::BTreeSet\)", "collections::BinaryHeap)"), ("table_heap_set", r"collections::BinaryHeap\)", "collections::BTreeSet)"),
    ("table_deque", r"collections::VecDeque\)", "collections::LinkedList)"),
    ("table_range", r"ops::RangeInclusive\)", "ops::Range)"), ("table_range2", r"ops::Range\)", "ops::RangeInclusive)"),
    ("table_nonzero", r"num::NonZeroU(8|16|32|64)\)", lambda m: "num::NonZeroU" + {"8": "16", "16": "32", "32": "64", "64": "128"}[m.group(1)] + ")"),
    ("table_option_result", r"option::Option\)", "result::Result)"),
    ("table_bool_char", r"primitive::bool\)", "primitive::u8)"), ("table_char", r"primitive::char\)", "primitive::u32)"),
    ("table_string", r"#alloc_crate_path::string::String\)", "#alloc_crate_path::vec::Vec<::core::primitive::u8>)"),
    ("vec_path", r"#alloc_crate_path::vec::Vec<#of>", "#alloc_crate_path::collections::VecDeque<#of>"),
    ("array_len", r"\[#of; #len\]", "[#of; 1usize]"),
    ("bits_swap", r"<#bit_store_type, #bit_order_type>", "<#bit_order_type, #bit_store_type>"),
    ("phantom_path", r"::core::marker::PhantomData<#params>", "::core::marker::PhantomData<()>"),
    ("index_attr", r"codec\(index = #index\)", "codec(index = 0)"),
    ("std_for_alloc", r"quote!\(::std\)", "quote!(::alloc)"),
]

def candidate_lines(path):
    src = open(os.path.join(REPO, path)).read().split("\n")
    out = []
    in_tests = False
    for i, l in enumerate(src):
        s = l.strip()
        if s.startswith("#[cfg(test)]"):
            in_tests = True
        if in_tests:
            continue
        if not s or s.startswith("//") or s.startswith("#[") or s.startswith("use ") or s.startswith("pub use ") or "assert" in s:
            continue
        if s.startswith("#!") or s.startswith("///") or s.startswith("//!"):
            continue
        out.append(i)
    return src, out

def mutants_of(path):
    src, lines = candidate_lines(path)
    res = []
    for i in lines:
        l = src[i]
        code = l.split("//")[0]
        for name, rx, rep in OPS:
            ms = list(re.finditer(rx, code))
            for k, m in enumerate(ms):
                # skip matches inside string literals (crude: odd number of quotes before)
                if code[:m.start()].count('"') % 2 == 1:
                    continue
                new = code[:m.start()] + (rep(m) if callable(rep) else m.expand(rep)) + code[m.end():] + l[len(code):]
                if new != l:
                    res.append({"file": path, "line": i + 1, "op": name, "k": k, "old": l, "new": new})
    return res

def sh(cmd, cwd, timeout, env=None):
    e = dict(os.environ); e["CARGO_NET_OFFLINE"] = "true"
    if env: e.update(env)
    try:
        p = subprocess.run(cmd, cwd=cwd, env=e, stdout=subprocess.PIPE, stderr=subprocess.STDOUT, text=True, timeout=timeout)
        return p.returncode, p.stdout
    except subprocess.TimeoutExpired:
        return 124, "timeout"

def rerun_missed(a):
    import fnmatch
    seen = {}
    for pth in (OUT, OUT_CHECKS):
        if os.path.exists(pth):
            for l in open(pth):
                r = json.loads(l)
                if r["status"] == "missed":
                    seen[(r["file"], r["line"], r["op"], r["k"])] = r
    out = os.path.join(HERE, "mutation", "results_rerun.jsonl")
    for key, m in seen.items():
        if not (fnmatch.fnmatch(m["file"], a.files) or a.files in m["file"]):
            continue
        sh(["git", "checkout", "-q", "--", "."], REPO, 60)
        p = os.path.join(REPO, m["file"])
        src = open(p).read().split("\n")
        if src[m["line"] - 1] != m["old"]:
            print("source moved:", key); continue
        src[m["line"] - 1] = m["new"]
        open(p, "w").write("\n".join(src))
        order = FILES[m["file"]] + ([] if a.relevant_only else [c for c in ALL if c not in FILES[m["file"]]])
        st, by = "missed", ""
        for c in order:
            rc2, out2 = sh(["./check", c, "quick"], VERIF, 2400, {"VERIF_METADATA": os.path.join(REPO, "artifacts/polkadot_metadata.scale"), "VERIF_SEED": "11", "VERIF_HANG_CONFIRM_S": "60"})
            if rc2 == 1:
                st, by = "caught", c
                break
        sh(["git", "checkout", "-q", "--", "."], REPO, 60)
        rec = {k: m[k] for k in ("file", "line", "op", "k", "old", "new")}
        rec["status"] = st; rec["caught_by"] = by
        open(out, "a").write(json.dumps(rec) + "\n")
        print("%s:%d %s -> %s %s" % (m["file"], m["line"], m["op"], st, by), flush=True)
    return 0

def report():
    def load(p):
        d = {}
        if os.path.exists(p):
            for l in open(p):
                try:
                    r = json.loads(l); d[(r["file"], r["line"], r["op"], r["k"])] = r
                except Exception:
                    pass
        return d
    both, tests, checks = load(OUT), load(OUT_TESTS), load(OUT_CHECKS)
    rows = []
    for k, r in both.items():
        rows.append((k, r["status"], r))
    for k, c in checks.items():
        if k in both:
            continue
        t = tests.get(k)
        if c["status"] == "stillborn" or (t and t["status"] == "stillborn"):
            st = "stillborn"
        elif t is None:
            st = "caught_tests_unknown" if c["status"] == "caught" else ("missed_tests_unknown" if c["status"] == "missed" else c["status"])
        elif t["status"] == "killed_by_tests":
            st = "killed_by_tests" + ("_and_caught" if c["status"] == "caught" else "_but_missed_by_checks")
        elif t["status"] == "survives_tests":
            st = c["status"]
        else:
            st = t["status"]
        rows.append((k, st, c))
    from collections import Counter
    cnt = Counter(st for _, st, _ in rows)
    print(json.dumps(cnt, indent=1))
    surv = cnt["caught"] + cnt["missed"]
    if surv:
        print("mutants that compile and pass the repo's tests: %d, caught by the quick checks: %d (%.1f%%)" % (surv, cnt["caught"], 100.0 * cnt["caught"] / surv))
    for k, st, r in rows:
        if st.startswith("missed") or st.endswith("missed_by_checks"):
            print(st, r["file"], r["line"], r["op"], "|", r["old"].strip()[:100], "=>", r["new"].strip()[:100], "| infra:", [i[0] for i in r.get("infra", [])])
    return 0

def main():
    ap = argparse.ArgumentParser()
    ap.add_argument("--n", type=int, default=100)
    ap.add_argument("--seed", type=int, default=1)
    ap.add_argument("--files", default="*")
    ap.add_argument("--mode", default="both", choices=["both", "tests", "checks"],
                    help="both: tests, then checks for survivors (results.jsonl). tests / checks: only that half, for two labs running in parallel (results_tests.jsonl / results_checks.jsonl); merge with --report")
    ap.add_argument("--report", action="store_true")
    ap.add_argument("--relevant-only", action="store_true", help="rerun-missed: only the checks listed for the file")
    ap.add_argument("--rerun-missed", action="store_true", help="run the recorded missed mutants again with the machinery as it is now in LAB (results_rerun.jsonl)")
    ap.add_argument("--only-survivors", action="store_true", help="checks mode: only mutants that results_tests.jsonl records as survives_tests")
    a = ap.parse_args()
    if a.report:
        return report()
    if a.rerun_missed:
        return rerun_missed(a)
    global OUT
    if a.mode == "tests":
        OUT = OUT_TESTS
    elif a.mode == "checks":
        OUT = OUT_CHECKS
    import fnmatch
    pool = []
    for f in FILES:
        if fnmatch.fnmatch(f, a.files) or a.files in f:
            pool += mutants_of(f)
    rnd = random.Random(a.seed)
    rnd.shuffle(pool)
    done = set()
    if os.path.exists(OUT):
        for l in open(OUT):
            try:
                d = json.loads(l); done.add((d["file"], d["line"], d["op"], d["k"]))
            except Exception:
                pass
    if a.only_survivors:
        surv = set()
        for l in open(OUT_TESTS):
            d = json.loads(l)
            if d["status"] == "survives_tests":
                surv.add((d["file"], d["line"], d["op"], d["k"]))
        pool = [m for m in pool if (m["file"], m["line"], m["op"], m["k"]) in surv]
    print("mutant pool: %d, already done: %d" % (len(pool), len(done)))
    open(os.path.join(HERE, "mutation", "campaign-%s.pid" % a.mode), "w").write(str(os.getpid()))
    n = 0
    for m in pool:
        if n >= a.n:
            break
        key = (m["file"], m["line"], m["op"], m["k"])
        if key in done:
            continue
        n += 1
        sh(["git", "checkout", "-q", "--", "."], REPO, 60)
        p = os.path.join(REPO, m["file"])
        src = open(p).read().split("\n")
        assert src[m["line"] - 1] == m["old"]
        src[m["line"] - 1] = m["new"]
        open(p, "w").write("\n".join(src))
        t0 = time.time()
        if a.mode == "checks":
            rc, out = 0, ""
        else:
            rc, out = sh(["cargo", "test", "--workspace", "--offline", "--lib", "-q"], REPO, 900)
        rec = dict(m); rec["t_tests"] = round(time.time() - t0, 1)
        if a.mode == "tests" and rc == 0:
            rec["status"] = "survives_tests"
        elif rc != 0:
            if "error[" in out or "error:" in out and "test failed" not in out and "FAILED" not in out:
                rec["status"] = "stillborn"
            elif rc == 124:
                rec["status"] = "tests_timeout"
            else:
                rec["status"] = "killed_by_tests"
        else:
            order = FILES[m["file"]] + [c for c in ALL if c not in FILES[m["file"]]]
            rec["status"] = "missed"; rec["checks_run"] = []; rec["infra"] = []
            for c in order:
                t1 = time.time()
                rc2, out2 = sh(["./check", c, "quick"], VERIF, 2400,
                               {"VERIF_METADATA": os.path.join(REPO, "artifacts/polkadot_metadata.scale"), "VERIF_SEED": "11", "VERIF_HANG_CONFIRM_S": "60"})
                rec["checks_run"].append(c)
                if rc2 == 1:
                    rec["status"] = "caught"; rec["caught_by"] = c
                    ln = [x for x in out2.split("\n") if "first:" in x or "probe" in x or "does not terminate" in x or "extra stage" in x]
                    rec["how"] = (ln[0] if ln else out2[-300:])[:300]
                    rec["t_check"] = round(time.time() - t1, 1)
                    break
                if rc2 != 0:
                    rec["infra"].append([c, rc2, out2[-200:]])
                    if "harness build failed" in out2:
                        rec["status"] = "stillborn"
                        break
        sh(["git", "checkout", "-q", "--", "."], REPO, 60)
        with open(OUT, "a") as f:
            f.write(json.dumps(rec) + "\n")
        print("%s:%d %s -> %s %s" % (m["file"], m["line"], m["op"], rec["status"], rec.get("caught_by", "")), flush=True)

if __name__ == "__main__":
    main()
