#!/bin/bash
# run_all.sh <tier> <seed>...  : runs every check, prints one line per (check, seed)
HERE=$(dirname $(dirname $(realpath $0)))
tier=$1; shift
for seed in "$@"; do
  for c in C01 C02 C03 C04 C05 C06 C07 C08 C09 C10 C11 C12 C13 C14 C15 C16 C17 C18; do
    s0=$(date +%s); out=$(cd $HERE && VERIF_SEED=$seed ./check $c $tier 2>&1); rc=$?; s1=$(date +%s)
    echo "seed=$seed $c rc=$rc t=$((s1-s0))s $(echo "$out" | grep -E "quick:|thorough:" | tail -1 | cut -c1-110) $(echo "$out" | grep -E "first:|probe .* failed|INFRA" | head -1 | cut -c1-200)"
  done
done
