#!/bin/bash
# run_all.sh <tier> <seed>...  : runs every check, prints one line per (check, seed)
tier=$1; shift
for seed in "$@"; do
  for c in C01 C02 C03 C04 C05 C06 C07 C08 C09 C10 C11 C12 C13 C14 C15 C16 C17 C18; do
    out=$(cd /verif && VERIF_SEED=$seed ./check $c $tier 2>&1); rc=$?
    echo "seed=$seed $c rc=$rc $(echo "$out" | grep -E "quick:|thorough:" | tail -1 | cut -c1-110) $(echo "$out" | grep -E "first:|probe .* failed|INFRA" | head -1 | cut -c1-200)"
  done
done
