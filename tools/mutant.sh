#!/bin/bash
# usage: mutant.sh <check-id> <file-relative-to-/repo> <python-replace-old> <python-replace-new>
# applies a textual mutation to /repo, runs the quick check, reverts. Prints CAUGHT / MISSED.
set -u
id=$1; file=$2; old=$3; new=$4
cd /repo
python3 - "$file" "$old" "$new" <<'PY'
import sys
p,old,new=sys.argv[1:4]
s=open(p).read()
if old not in s:
    print("MUTATION-NOT-APPLICABLE"); sys.exit(3)
open(p,'w').write(s.replace(old,new,1))
PY
rc=$?
if [ $rc -ne 0 ]; then git checkout -- . ; exit 3; fi
out=$(cd /verif && VERIF_SEED=${VERIF_SEED:-5} ./check $id quick 2>&1)
rc=$?
git checkout -- .
if [ $rc -eq 1 ]; then echo "CAUGHT [$id] $old -> $new :: $(echo "$out" | grep -m1 -E 'first:|probe|failed' | cut -c1-220)";
elif [ $rc -eq 0 ]; then echo "MISSED [$id] $old -> $new";
else echo "INFRA($rc) [$id] $old -> $new :: $(echo "$out" | tail -3)"; fi
